/* C01 / C03 / C12 (lexical layer): ONE call of the real next_token - with all of scan_ws, scan_to_ws, scan_to_eol,
 * scan_unquoted, scan_delim_string, scan_triple_delim_string, scan_text inlined - on a scan buffer holding KLEN symbolic
 * code units (PREFIX, if given, fixes the first units concretely so that longer reserved words / delimiters are in range),
 * in CIF 2.0 or CIF 1.1 character tables set up by the real cif_parse_internal, against oracles/ref_tokenizer.h.
 * Modular seams: get_first_char / get_more_chars are replaced by their contract for a source that has delivered the whole
 * EOL-normalised input (buffer management is C08); parse_cif is replaced by this harness' body.
 * Checked for EVERY buffer content: result code contract, token type, value extent, consumption, line count, the exact
 * sequence of error codes under an all-accepting callback (lexical defect classes of C12 and their recovery), first code
 * returned under a rejecting callback, callback arguments (line >= 1, text NULL or readable), no error on well-formed input.
 * Inputs using characters the reference leaves open (controls, surrogates, ...) get the generic assertions only. */
#include "vnd.h"
#include <stdlib.h>
#include <unicode/ustring.h>
#include "cif.h"
#include "internal/ciftypes.h"
#include "internal/utils.h"
#include "../oracles/ref_tokenizer.h"
#ifndef KLEN
#define KLEN 4
#endif
#ifndef CIFV
#define CIFV 2
#endif
#define CIF_EOF -1
int __CPROVER_file_local_parser_c_next_token(struct scanner_s *s);
int cif_parse_internal(struct scanner_s *scanner, int not_utf8, const char *extra_ws, const char *extra_eol, cif_tp *dest);
static UChar in[KLEN + 1]; static int prev_adjacent_ok, reject_at;
static int nerr, codes[REF_MAXERR], bad_cb;
static int errcb(int code, size_t line, size_t col, const UChar *t, size_t len, void *d) {
    size_t i; if (nerr < REF_MAXERR) codes[nerr] = code; nerr++;
    if (line < 1) bad_cb = 1;
    if (t != NULL) for (i = 0; i < len && i < 4; i++) { volatile UChar c = t[i]; (void) c; }      /* must be readable */
    return (nerr == reject_at) ? code : 0;
}
int __CPROVER_file_local_parser_c_get_first_char(struct scanner_s *s) { int k; for (k = 0; k < KLEN; k++) s->buffer[k] = in[k]; s->buffer_limit = KLEN; s->at_eof = 1; s->tvalue_start = s->buffer; return CIF_OK; }
int __CPROVER_file_local_parser_c_get_more_chars(struct scanner_s *s) { s->at_eof = 1; return CIF_EOF; }
static int ran;
int __CPROVER_file_local_parser_c_parse_cif(struct scanner_s *s, cif_tp *cif) {
    struct reftok r; int rc, i;
    ran = 1;
    s->ttype = prev_adjacent_ok ? END : VALUE;           /* what came before: a token after which whitespace is / is not required */
    s->line = 1; s->column = 0; nerr = 0; bad_cb = 0;
    r = ref_next_token(in, KLEN, CIFV, prev_adjacent_ok, CIF_LINE_LENGTH);
    rc = __CPROVER_file_local_parser_c_next_token(s);
    /* generic contract (any input) */
    V_ASSERT(!bad_cb, "every error callback carries a line number >= 1");
    V_ASSERT(rc >= 0, "no internal (negative) code escapes next_token");
    if (rc != CIF_OK) V_ASSERT(reject_at >= 1 && nerr >= reject_at && rc == codes[(reject_at - 1) % REF_MAXERR], "a non-zero result is exactly the code the callback rejected");
    else {
        V_ASSERT(s->ttype != ERROR, "a token type is assigned");
        V_ASSERT(s->text_start >= s->buffer && s->text_start <= s->next_char && s->next_char <= s->buffer + KLEN, "scan positions stay inside the buffer");
        V_ASSERT(s->tvalue_start >= s->buffer && s->tvalue_start + s->tvalue_length <= s->buffer + KLEN, "the token value lies inside the buffer");
    }
    if (!r.unspecified) {
        /* errors: the accepting callback sees exactly the reference sequence; a rejecting one stops at its code */
        if (reject_at == 0 || reject_at > r.nerr) {
            V_ASSERT(rc == CIF_OK, "with every error accepted the scan succeeds");
            V_ASSERT(nerr == r.nerr, "exactly the defects present are reported (none on well-formed input)");
            for (i = 0; i < REF_MAXERR; i++) if (i < r.nerr) V_ASSERT(codes[i] == r.err[i], "each lexical defect is reported with its documented code, in order");
            V_ASSERT((int) s->ttype == r.type, "token type as the grammar prescribes");
            V_ASSERT((int) (s->tvalue_start - s->buffer) == r.vstart && (int) s->tvalue_length == r.vlen, "token value extent as the grammar / documented recovery prescribes");
            V_ASSERT((int) (s->next_char - s->buffer) == r.consumed, "exactly the token's text is consumed");
            if (r.type != R_END) V_ASSERT((int) (s->text_start - s->buffer) == r.tstart, "the token text starts after the preceding whitespace / comments");
            V_ASSERT((int) s->line == r.line, "the line number advances by the line terminators consumed");
            if (r.nerr == 0 && r.type == R_QVALUE) V_COVER_OPT("well-formed quoted value");
            if (r.nerr > 0) V_COVER_OPT("defect reported and recovered");
            if (r.type == R_TVALUE) V_COVER_OPT("text field");
        } else {
            V_ASSERT(rc == r.err[(reject_at - 1) % REF_MAXERR], "a rejecting callback gets, and next_token returns, the code an accepting parse reports at that point");
        }
        V_COVER("specified input");
    }
    return rc;
}
void harness(void) {
    struct scanner_s sc; cif_handler_tp h = { 0, 0, 0, 0, 0, 0, 0, 0, 0, 0, 0 }; int k;
#ifdef PREFIX
    static const UChar pre[] = PREFIX; int np = (int) (sizeof pre / sizeof pre[0]);
#else
    int np = 0; static const UChar pre[1] = { 0 };
#endif
    for (k = 0; k < KLEN; k++) in[k] = (k < np) ? pre[k] : vnd_u16();
    V_ASSUME(in[0] != 0xFEFF);                      /* an initial BOM is consumed by cif_parse_internal (C11) */
    in[KLEN] = 0;
#ifdef PREVOK
    prev_adjacent_ok = PREVOK; reject_at = REJECT;     /* concrete per instance (driver enumerates 2 x 3) */
#else
    prev_adjacent_ok = vnd_bool(); reject_at = vnd_range(0, 2);
#endif
    sc.char_source = 0; sc.read_func = 0; sc.at_eof = 0; sc.cif_version = CIFV; sc.line_unfolding = 0; sc.prefix_removing = 0; sc.max_frame_depth = 1;
    sc.handler = &h; sc.error_callback = errcb; sc.whitespace_callback = 0; sc.keyword_callback = 0; sc.dataname_callback = 0; sc.user_data = 0;
    (void) cif_parse_internal(&sc, 0, 0, 0, 0);
    V_ASSERT(ran, "the grammar entry point was reached");
    V_COVER("end");
}
