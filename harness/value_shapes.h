/* Shared by h19_clone.c / h07_ser.c / h17_*.c: builders for value trees of a CONCRETE shape with symbolic contents and a
 * deep comparison along the same shape (sets `bad`).  Shapes: 0 char, 1 unknown, 2 n/a, 3 number, 4 list[char,n/a],
 * 5 table{a:char}, 6 list[list[char]], 7 table{a:list[char]}, 8 number with uncertainty (state constructed directly: arbitrary
 * text / digit strings / sign / scale / quoted flag of concrete lengths), 9 list[number with uncertainty]. */
#ifndef VALUE_SHAPES_H
#define VALUE_SHAPES_H
#ifdef NORM_SINGLETONS
static UChar KEYA[2] = { 0x212B, 0 };   /* ANGSTROM SIGN: its normalised form (U+00C5) differs from the spelling entered */
#else
static UChar KEYA[2] = { 'A', 0 };
#endif
static void same_key(cif_value_tp *t);
static cif_value_tp *mk_char(void) {
    cif_value_tp *v = NULL; UChar t[3]; int rc;
#ifdef CONCRETE_TEXT
    { static int serial; t[0] = (UChar) ('a' + serial++); t[1] = 0x3b1; t[2] = 0; }   /* concrete text (byte-level code paths need concrete sizes) */
#else
    t[0] = vnd_u16(); t[1] = vnd_u16(); t[2] = 0; V_ASSUME(t[0] != 0 && t[1] != 0);   /* concrete length, symbolic content */
#endif
    rc = cif_value_create(CIF_UNK_KIND, &v); V_ASSUME(rc == CIF_OK);
    rc = cif_value_copy_char(v, t); V_ASSUME(rc == CIF_OK);
    if (vnd_bool()) v->as_char.quoted = CIF_NOT_QUOTED;
    return v;
}
static cif_value_tp *mk_kind(cif_kind_tp k) { cif_value_tp *v = NULL; int rc = cif_value_create(k, &v); V_ASSUME(rc == CIF_OK); return v; }
static cif_value_tp *mk_numb(void) {
    cif_value_tp *v = mk_kind(CIF_UNK_KIND); UChar *t = (UChar *) malloc(5 * sizeof(UChar)); int rc; V_MALLOC_OK(t);
    t[0] = vnd_u16(); t[1] = '.'; t[2] = vnd_u16(); t[3] = 0; V_ASSUME(t[0] >= '1' && t[0] <= '9' && t[2] >= '0' && t[2] <= '9');   /* no leading zero: digit-string length stays concrete */
    rc = cif_value_parse_numb(v, t); V_ASSUME(rc == CIF_OK);
    return v;
}
/* a number in an arbitrary state of the representation (struct numb_value_s): text of 3 units, 2 digits, 1 or 0 su digits */
static cif_value_tp *mk_numb_state(void) {
    cif_value_tp *v = mk_kind(CIF_UNK_KIND); UChar *t = (UChar *) malloc(4 * sizeof(UChar)); char *d = (char *) malloc(3), *su = (char *) malloc(2);
    V_MALLOC_OK(t); V_MALLOC_OK(d); V_MALLOC_OK(su);
    t[0] = vnd_u16(); t[1] = vnd_u16(); t[2] = vnd_u16(); t[3] = 0; V_ASSUME(t[0] != 0 && t[1] != 0 && t[2] != 0);
    d[0] = (char) vnd_range('0', '9'); d[1] = (char) vnd_range('0', '9'); d[2] = 0; su[0] = (char) vnd_range('0', '9'); su[1] = 0;
    v->as_numb.kind = CIF_NUMB_KIND; v->as_numb.quoted = vnd_bool() ? CIF_QUOTED : CIF_NOT_QUOTED; v->as_numb.text = t; v->as_numb.digits = d; v->as_numb.su_digits = su;
    v->as_numb.sign = vnd_bool() ? 1 : -1; v->as_numb.scale = vnd_range(-3, 3);
    return v;
}
static cif_value_tp *build(int shape) {
    cif_value_tp *v, *e, *f; int rc;
    switch (shape) {
    case 0: return mk_char();
    case 1: return mk_kind(CIF_UNK_KIND);
    case 2: return mk_kind(CIF_NA_KIND);
    case 3: return mk_numb();
    case 8: return mk_numb_state();
    case 9: v = mk_kind(CIF_LIST_KIND); e = mk_numb_state(); rc = cif_value_insert_element_at(v, 0, e); V_ASSUME(rc == CIF_OK); cif_value_free(e); return v;
    case 4: v = mk_kind(CIF_LIST_KIND); e = mk_char(); rc = cif_value_insert_element_at(v, 0, e); V_ASSUME(rc == CIF_OK); cif_value_free(e);
            e = mk_kind(CIF_NA_KIND); rc = cif_value_insert_element_at(v, 1, e); V_ASSUME(rc == CIF_OK); cif_value_free(e); return v;
    case 5: v = mk_kind(CIF_TABLE_KIND); e = mk_char(); rc = cif_value_set_item_by_key(v, KEYA, e); V_ASSUME(rc == CIF_OK); cif_value_free(e); return v;
    case 6: v = mk_kind(CIF_LIST_KIND); f = mk_kind(CIF_LIST_KIND); e = mk_char(); rc = cif_value_insert_element_at(f, 0, e); V_ASSUME(rc == CIF_OK); cif_value_free(e);
            rc = cif_value_insert_element_at(v, 0, f); V_ASSUME(rc == CIF_OK); cif_value_free(f); return v;
    default: v = mk_kind(CIF_TABLE_KIND); f = mk_kind(CIF_LIST_KIND); e = mk_char(); rc = cif_value_insert_element_at(f, 0, e); V_ASSUME(rc == CIF_OK); cif_value_free(e);
            rc = cif_value_set_item_by_key(v, KEYA, f); V_ASSUME(rc == CIF_OK); cif_value_free(f); return v;
    }
}
static int bad;
static void same_scalar(cif_value_tp *a, cif_value_tp *b) {
    if (a == b || a->kind != b->kind) { bad = 1; return; }
    if (a->kind == CIF_CHAR_KIND) {
        if (a->as_char.text == b->as_char.text || a->as_char.quoted != b->as_char.quoted) bad = 1;
        if (a->as_char.text[0] != b->as_char.text[0] || a->as_char.text[1] != b->as_char.text[1] || (a->as_char.text[1] && a->as_char.text[2] != b->as_char.text[2])) bad = 1;
    } else if (a->kind == CIF_NUMB_KIND) {
        int i;
        if (a->as_numb.text == b->as_numb.text || a->as_numb.digits == b->as_numb.digits) bad = 1;
        if (a->as_numb.sign != b->as_numb.sign || a->as_numb.scale != b->as_numb.scale || a->as_numb.quoted != b->as_numb.quoted) bad = 1;
        for (i = 0; i < 4; i++) { if (a->as_numb.text[i] != b->as_numb.text[i]) bad = 1; if (!a->as_numb.text[i]) break; }
        for (i = 0; i < 3; i++) { if (a->as_numb.digits[i] != b->as_numb.digits[i]) bad = 1; if (!a->as_numb.digits[i]) break; }
        if ((a->as_numb.su_digits == NULL) != (b->as_numb.su_digits == NULL)) bad = 1;
        if (a->as_numb.su_digits != NULL && b->as_numb.su_digits != NULL) {
            if (a->as_numb.su_digits == b->as_numb.su_digits) bad = 1;
            for (i = 0; i < 3; i++) { if (a->as_numb.su_digits[i] != b->as_numb.su_digits[i]) bad = 1; if (!a->as_numb.su_digits[i]) break; }
        }
    }
}
/* deep comparison along the concrete shape */
static void same(int shape, cif_value_tp *a, cif_value_tp *b) {
    cif_value_tp *x = NULL, *y = NULL; size_t n = 0, m = 0;
    if (a == b || a->kind != b->kind) { bad = 1; return; }
    switch (shape) {
    case 0: case 1: case 2: case 3: case 8: same_scalar(a, b); break;
    case 9: cif_value_get_element_count(a, &n); cif_value_get_element_count(b, &m); if (n != 1 || m != 1) { bad = 1; return; }
            cif_value_get_element_at(a, 0, &x); cif_value_get_element_at(b, 0, &y); same_scalar(x, y); break;
    case 4: cif_value_get_element_count(a, &n); cif_value_get_element_count(b, &m); if (n != 2 || m != 2) { bad = 1; return; }
            cif_value_get_element_at(a, 0, &x); cif_value_get_element_at(b, 0, &y); same_scalar(x, y);
            cif_value_get_element_at(a, 1, &x); cif_value_get_element_at(b, 1, &y); same_scalar(x, y); break;
    case 5: cif_value_get_element_count(b, &m); if (m != 1) { bad = 1; return; } same_key(b);
            if (cif_value_get_item_by_key(a, KEYA, &x) != CIF_OK || cif_value_get_item_by_key(b, KEYA, &y) != CIF_OK) { bad = 1; return; } same_scalar(x, y); break;
    case 6: cif_value_get_element_count(b, &m); if (m != 1) { bad = 1; return; }
            cif_value_get_element_at(a, 0, &x); cif_value_get_element_at(b, 0, &y); if (!x || !y || x == y || y->kind != CIF_LIST_KIND) { bad = 1; return; }
            a = x; b = y; cif_value_get_element_count(b, &m); if (m != 1) { bad = 1; return; }
            cif_value_get_element_at(a, 0, &x); cif_value_get_element_at(b, 0, &y); same_scalar(x, y); break;
    default: same_key(b); if (cif_value_get_item_by_key(a, KEYA, &x) != CIF_OK || cif_value_get_item_by_key(b, KEYA, &y) != CIF_OK || x == y || y->kind != CIF_LIST_KIND) { bad = 1; return; }
            a = x; b = y; cif_value_get_element_count(b, &m); if (m != 1) { bad = 1; return; }
            cif_value_get_element_at(a, 0, &x); cif_value_get_element_at(b, 0, &y); same_scalar(x, y); break;
    }
}
#endif
/* the single key of table t is reported in the spelling it was entered with */
static void same_key(cif_value_tp *t) {
    const UChar **keys = NULL;
    if (cif_value_get_keys(t, &keys) != CIF_OK || keys == NULL) { bad = 1; return; }
    if (keys[0] == NULL || keys[0][0] != KEYA[0] || keys[0][1] != 0 || keys[1] != NULL) bad = 1;
    free(keys);
}
