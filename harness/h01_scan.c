/* C01 / C03 / C12 (scanner units): each real scan function on its own, from the state next_token establishes before
 * calling it, on KLEN symbolic code units, against the unit-level references of oracles/ref_tokenizer.h.
 * SCANFN: 1 scan_ws, 2 scan_to_eol, 3 scan_to_ws, 4 scan_unquoted, 5 scan_delim_string (incl. triple), 6 scan_text.
 * Seams as in h01_tok.c (fill functions = exhausted source; tables set up by the real cif_parse_internal). */
#include "vnd.h"
#include <stdlib.h>
#include <unicode/ustring.h>
#include "cif.h"
#include "internal/ciftypes.h"
#include "internal/utils.h"
#include "../oracles/ref_tokenizer.h"
#ifndef KLEN
#define KLEN 5
#endif
#ifndef CIFV
#define CIFV 2
#endif
#define CIF_EOF -1
int __CPROVER_file_local_parser_c_scan_ws(struct scanner_s *s);
int __CPROVER_file_local_parser_c_scan_to_eol(struct scanner_s *s);
int __CPROVER_file_local_parser_c_scan_to_ws(struct scanner_s *s);
int __CPROVER_file_local_parser_c_scan_unquoted(struct scanner_s *s);
int __CPROVER_file_local_parser_c_scan_delim_string(struct scanner_s *s);
int __CPROVER_file_local_parser_c_scan_text(struct scanner_s *s);
int cif_parse_internal(struct scanner_s *scanner, int not_utf8, const char *extra_ws, const char *extra_eol, cif_tp *dest);
static UChar in[KLEN + 1]; static int reject_at, nerr, codes[REF_MAXERR], bad_cb;
static int errcb(int code, size_t line, size_t col, const UChar *t, size_t len, void *d) {
    size_t i; if (nerr < REF_MAXERR) codes[nerr] = code; nerr++;
    if (line < 1) bad_cb = 1;
    if (t != NULL) for (i = 0; i < len && i < 4; i++) { volatile UChar c = t[i]; (void) c; }
    return (nerr == reject_at) ? code : 0;
}
int __CPROVER_file_local_parser_c_get_first_char(struct scanner_s *s) { int k; for (k = 0; k < KLEN; k++) s->buffer[k] = in[k]; s->buffer_limit = KLEN; s->at_eof = 1; s->tvalue_start = s->buffer; return CIF_OK; }
int __CPROVER_file_local_parser_c_get_more_chars(struct scanner_s *s) { s->at_eof = 1; return CIF_EOF; }
static int ran;
int __CPROVER_file_local_parser_c_parse_cif(struct scanner_s *s, cif_tp *cif) {
    struct refscan r; int rc, i, clean = 1, pre_ok = 1;
    ran = 1; nerr = 0; bad_cb = 0; s->line = 1;
    for (i = 0; i < KLEN; i++) if (!ref_clean(in[i], CIFV)) clean = 0;
    s->text_start = s->buffer; s->tvalue_start = s->buffer; s->tvalue_length = 0;
#if SCANFN == 1        /* whitespace run: entered with the scan position at its first character */
    s->next_char = s->buffer; s->column = 0; pre_ok = ref_ws(in[0]);
    r = ref_scan_ws(in, KLEN, 0, 1, 0, CIF_LINE_LENGTH); rc = __CPROVER_file_local_parser_c_scan_ws(s);
#elif SCANFN == 2      /* comment: entered after the '#' */
    s->next_char = s->buffer + 1; s->column = 1; pre_ok = (in[0] == '#');
    r = ref_scan_to_eol(in, KLEN, 0, 1, 0); rc = __CPROVER_file_local_parser_c_scan_to_eol(s);
#elif SCANFN == 3      /* data name: entered after the '_' */
    s->next_char = s->buffer + 1; s->column = 1; pre_ok = (in[0] == '_');
    r = ref_scan_to_ws(in, KLEN, 0, 1, 0); rc = __CPROVER_file_local_parser_c_scan_to_ws(s);
#elif SCANFN == 4      /* whitespace-delimited value: entered (backed up) at its first character, which is not whitespace, a quote, '#', '_' or (CIF 2.0) a bracket */
    s->next_char = s->buffer; s->column = 0;
    pre_ok = !ref_ws(in[0]) && in[0] != '#' && in[0] != '_' && in[0] != 0x27 && in[0] != '"' && in[0] != ';' && !(CIFV >= 2 && (in[0] == '[' || in[0] == ']' || in[0] == '{' || in[0] == '}'));
    r = ref_scan_unquoted(in, KLEN, CIFV, 0, 1, 0); rc = __CPROVER_file_local_parser_c_scan_unquoted(s);
#elif SCANFN == 5      /* quoted string: entered after the opening quote */
    s->next_char = s->buffer + 1; s->column = 1; pre_ok = (in[0] == 0x27 || in[0] == '"');
    r = ref_scan_delim(in, KLEN, CIFV, 0, 1, 0, CIF_LINE_LENGTH); rc = __CPROVER_file_local_parser_c_scan_delim_string(s);
#elif SCANFN == 6      /* text field: entered after the ';' in column 1 */
    s->next_char = s->buffer + 1; s->column = 1; pre_ok = (in[0] == ';');
    r = ref_scan_text(in, KLEN, 0, 1, CIF_LINE_LENGTH); rc = __CPROVER_file_local_parser_c_scan_text(s);
#endif
    if (!pre_ok) return 0;          /* outside the function's precondition (next_token would not have called it) */
    V_ASSERT(!bad_cb, "every error callback carries a line number >= 1");
    V_ASSERT(rc >= 0, "no internal (negative) code escapes the scan function");
    if (rc != CIF_OK) V_ASSERT(reject_at >= 1 && nerr >= reject_at && rc == codes[(reject_at - 1) % REF_MAXERR], "a non-zero result is exactly the code the callback rejected");
    else {
        V_ASSERT(!(reject_at >= 1 && nerr >= reject_at), "a rejection by the error callback is not swallowed");
        V_ASSERT(s->next_char >= s->buffer && s->next_char <= s->buffer + KLEN, "the scan position stays inside the buffer");
        V_ASSERT(s->tvalue_start >= s->buffer && s->tvalue_start + s->tvalue_length <= s->buffer + KLEN, "the token value lies inside the buffer");
    }
    if (reject_at >= 1 && nerr >= reject_at) V_ASSERT(nerr == reject_at, "no further error is reported once the callback has rejected one");
    if (clean) {
        if (reject_at == 0 || reject_at > r.nerr) {
            V_ASSERT(rc == CIF_OK, "with every error accepted the scan succeeds");
            V_ASSERT(nerr == r.nerr, "exactly the defects present are reported (none on well-formed text)");
            for (i = 0; i < REF_MAXERR; i++) if (i < r.nerr) V_ASSERT(codes[i] == r.err[i], "each lexical defect is reported with its documented code, in order");
            V_ASSERT((int) (s->next_char - s->buffer) == r.end, "exactly the construct's text is consumed");
            V_ASSERT((int) (s->tvalue_start - s->buffer) == r.vstart && (int) s->tvalue_length == r.vlen, "value extent as the grammar / documented recovery prescribes");
            V_ASSERT((int) s->line == r.line, "the line number advances by the line terminators consumed");
            V_ASSERT((int) s->column == r.col, "the column counts the characters scanned on the current line");
            if (r.nerr > 0) V_COVER_OPT("defect reported and recovered");
            if (r.line > 1) V_COVER_OPT("line terminator inside the construct");
        } else V_ASSERT(rc == r.err[(reject_at - 1) % REF_MAXERR], "a rejecting callback gets, and the function returns, the code an accepting scan reports at that point");
        V_COVER("specified input");
    }
    return rc;
}
void harness(void) {
    struct scanner_s sc; cif_handler_tp h = { 0, 0, 0, 0, 0, 0, 0, 0, 0, 0, 0 }; int k;
    for (k = 0; k < KLEN; k++) in[k] = vnd_u16();
    V_ASSUME(in[0] != 0xFEFF);
    in[KLEN] = 0;
    reject_at = vnd_range(0, 2);
    sc.char_source = 0; sc.read_func = 0; sc.at_eof = 0; sc.cif_version = CIFV; sc.line_unfolding = 0; sc.prefix_removing = 0; sc.max_frame_depth = 1;
    sc.handler = &h; sc.error_callback = errcb; sc.whitespace_callback = 0; sc.keyword_callback = 0; sc.dataname_callback = 0; sc.user_data = 0;
    (void) cif_parse_internal(&sc, 0, 0, 0, 0);
    V_ASSERT(ran, "the grammar entry point was reached");
    V_COVER("end");
}
