/* C02 (composite values): the real write_item / write_list / write_table / write_numb / write_literal / write_uliteral /
 * write_newline / ENSURE_SPACED (ciffile.c) on a value of a CONCRETE shape (SSHAPE, enumerated by the driver) from a SYMBOLIC
 * start column, with write_char - the leaf decided by the dispatch + writer queries - replaced by a stub that behaves as the
 * writers were shown to: it writes the value's text (between apostrophes when it is a table key, i.e. allow_text == 0) as
 * one token, on a new line first if it does not fit the current one, and keeps last_column exact.
 * Asserted: the call succeeds (every such value can be written); no output line exceeds the limit; last_column is exact; the
 * output, split at whitespace and brackets / braces, is exactly the token sequence the value denotes (elements in order and
 * separated, key immediately followed by ':' and then its value); the context flags are restored.
 * Element / key texts are words of concrete lengths (ELEN, KEYLEN: the driver enumerates lengths around the line limit). */
#include "vnd.h"
#include <stdlib.h>
#include <string.h>
#include <unicode/ustring.h>
#include <unicode/ustdio.h>
#include <sqlite3.h>
#include "cif.h"
#include "internal/ciftypes.h"
#include "internal/utils.h"
#ifndef VERIF_REPLAY
#include "write_context_gen.h"
#endif
#ifndef SINK_MAX
#define SINK_MAX 120
#endif
#ifndef ELEN
#define ELEN 2
#endif
#ifndef KEYLEN
#define KEYLEN 2
#endif
#ifndef KEYDELIM
#define KEYDELIM 1          /* 1: the key is presented 'key'; 3: '''key''' (what write_char chooses for a key holding both quote characters) */
#endif
/* whether "key" + delimiters + ':' can stand on one line at all; when not, the table cannot be written and must be refused */
#define KEY_FITS (KEYLEN + 2 * KEYDELIM + 1 <= CIF_LINE_LENGTH)
extern UChar vout[SINK_MAX]; extern int vout_len, sink_overflow, sink_badfmt;
int __CPROVER_file_local_ciffile_c_write_item(UChar *name, cif_value_tp *value, void *context);
static int leaf_calls;
/* the leaf, as the writer queries show the presentation writers to behave */
int __CPROVER_file_local_ciffile_c_write_char(void *context, cif_value_tp *v, int allow_text) {
    write_context_t *c = (write_context_t *) context; const UChar *t = v->as_char.text; int n = 0, i, tl, d;
    while (t[n]) n++;
    tl = n + (allow_text ? 0 : 2 * KEYDELIM);
    leaf_calls++;
    if (!allow_text && tl > CIF_LINE_LENGTH) return CIF_DISALLOWED_VALUE;   /* a key that needs a text field is refused (write_char, shown by the dispatch queries) */
    if (c->last_column + tl > CIF_LINE_LENGTH) { if (vout_len < SINK_MAX - 1) vout[vout_len++] = 0x0a; else sink_overflow = 1; c->last_column = 0; }
    if (!allow_text) for (d = 0; d < KEYDELIM; d++) { if (vout_len < SINK_MAX - 1) vout[vout_len++] = 0x27; else sink_overflow = 1; }
    for (i = 0; i < n; i++) { if (vout_len < SINK_MAX - 1) vout[vout_len++] = t[i]; else sink_overflow = 1; }
    if (!allow_text) for (d = 0; d < KEYDELIM; d++) { if (vout_len < SINK_MAX - 1) vout[vout_len++] = 0x27; else sink_overflow = 1; }
    c->last_column += tl;
    return CIF_OK;
}
/* builders */
static cif_value_tp *word(UChar first, int len) { cif_value_tp *v = NULL; UChar *t = (UChar *) malloc((len + 1) * sizeof(UChar)); int i, rc; V_MALLOC_OK(t);
    for (i = 0; i < len; i++) t[i] = (i == 0) ? first : 'x'; t[len] = 0; rc = cif_value_create(CIF_UNK_KIND, &v); V_ASSUME(rc == CIF_OK); rc = cif_value_init_char(v, t); V_ASSUME(rc == CIF_OK); v->as_char.quoted = CIF_NOT_QUOTED; return v; }
static cif_value_tp *kind(cif_kind_tp k) { cif_value_tp *v = NULL; int rc = cif_value_create(k, &v); V_ASSUME(rc == CIF_OK); return v; }
static cif_value_tp *numb(void) { cif_value_tp *v = kind(CIF_UNK_KIND); UChar *t = (UChar *) malloc(4 * sizeof(UChar)); int rc; V_MALLOC_OK(t); t[0] = '1'; t[1] = '.'; t[2] = '5'; t[3] = 0; rc = cif_value_parse_numb(v, t); V_ASSUME(rc == CIF_OK); return v; }
static void push(cif_value_tp *list, cif_value_tp *e) { size_t n = 0; int rc; cif_value_get_element_count(list, &n); rc = cif_value_insert_element_at(list, n, e); V_ASSUME(rc == CIF_OK); cif_value_free(e); }
static UChar KEY1[KEYLEN + 1], KEY2[3] = { 'q', '2', 0 };
static void put(cif_value_tp *table, const UChar *k, cif_value_tp *e) { int rc = cif_value_set_item_by_key(table, k, e); V_ASSUME(rc == CIF_OK); cif_value_free(e); }
/* expected token sequence, written by the builder alongside the value */
#define MAXTOK 12
#define MAXTL (ELEN > KEYLEN + 2 * KEYDELIM + 1 ? ELEN + 1 : KEYLEN + 2 * KEYDELIM + 2)
static UChar expt[MAXTOK][MAXTL + 1]; static int nexp;
static void ex_lit(const char *s) { int i = 0; while (s[i]) { expt[nexp][i] = (UChar) s[i]; i++; } expt[nexp][i] = 0; nexp++; }
static void ex_word(UChar first, int len) { int i; for (i = 0; i < len; i++) expt[nexp][i] = (i == 0) ? first : 'x'; expt[nexp][len] = 0; nexp++; }
static void ex_key(const UChar *k) { int i = 0, d, j = 0; for (d = 0; d < KEYDELIM; d++) expt[nexp][j++] = 0x27; while (k[i]) expt[nexp][j++] = k[i++]; for (d = 0; d < KEYDELIM; d++) expt[nexp][j++] = 0x27; expt[nexp][j++] = ':'; expt[nexp][j] = 0; nexp++; }
static cif_value_tp *build(void) {
    cif_value_tp *v, *w; int i; KEY1[0] = 'k'; for (i = 1; i < KEYLEN; i++) KEY1[i] = 'y'; KEY1[KEYLEN] = 0;
#if SSHAPE == 0            /* [ ] */
    v = kind(CIF_LIST_KIND); ex_lit("["); ex_lit("]");
#elif SSHAPE == 1          /* [ a b ] */
    v = kind(CIF_LIST_KIND); push(v, word('a', ELEN)); push(v, word('b', ELEN)); ex_lit("["); ex_word('a', ELEN); ex_word('b', ELEN); ex_lit("]");
#elif SSHAPE == 2          /* [ [ a ] ? . 1.5 ] */
    v = kind(CIF_LIST_KIND); w = kind(CIF_LIST_KIND); push(w, word('a', ELEN)); push(v, w); push(v, kind(CIF_UNK_KIND)); push(v, kind(CIF_NA_KIND)); push(v, numb());
    ex_lit("["); ex_lit("["); ex_word('a', ELEN); ex_lit("]"); ex_lit("?"); ex_lit("."); ex_lit("1.5"); ex_lit("]");
#elif SSHAPE == 3          /* { 'k':a } */
    v = kind(CIF_TABLE_KIND); put(v, KEY1, word('a', ELEN)); ex_lit("{"); ex_key(KEY1); ex_word('a', ELEN); ex_lit("}");
#elif SSHAPE == 4          /* { 'k':1.5 } */
    v = kind(CIF_TABLE_KIND); put(v, KEY1, numb()); ex_lit("{"); ex_key(KEY1); ex_lit("1.5"); ex_lit("}");
#elif SSHAPE == 5          /* { 'k':{ 'q2':a } } */
    v = kind(CIF_TABLE_KIND); w = kind(CIF_TABLE_KIND); put(w, KEY2, word('a', ELEN)); put(v, KEY1, w); ex_lit("{"); ex_key(KEY1); ex_lit("{"); ex_key(KEY2); ex_word('a', ELEN); ex_lit("}"); ex_lit("}");
#elif SSHAPE == 6          /* { 'k':[ a ] } */
    v = kind(CIF_TABLE_KIND); w = kind(CIF_LIST_KIND); push(w, word('a', ELEN)); put(v, KEY1, w); ex_lit("{"); ex_key(KEY1); ex_lit("["); ex_word('a', ELEN); ex_lit("]"); ex_lit("}");
#elif SSHAPE == 7          /* { 'k':? } */
    v = kind(CIF_TABLE_KIND); put(v, KEY1, kind(CIF_UNK_KIND)); ex_lit("{"); ex_key(KEY1); ex_lit("?"); ex_lit("}");
#elif SSHAPE == 8          /* [ { 'k':a } b ] */
    v = kind(CIF_LIST_KIND); w = kind(CIF_TABLE_KIND); put(w, KEY1, word('a', ELEN)); push(v, w); push(v, word('b', ELEN)); ex_lit("["); ex_lit("{"); ex_key(KEY1); ex_word('a', ELEN); ex_lit("}"); ex_word('b', ELEN); ex_lit("]");
#else                      /* scalars: 1.5 */
    v = numb(); ex_lit("1.5");
#endif
    return v;
}
static int is_ws(UChar c) { return c == 0x20 || c == 0x09 || c == 0x0a; }
static int is_br(UChar c) { return c == '[' || c == ']' || c == '{' || c == '}'; }
void harness(void) {
    write_context_t ctx; cif_value_tp *v; int rc, col0, i, cur, maxline = 0, bad_tok = 0, ntok = 0, names0, sep0;
    col0 = vnd_range(0, CIF_LINE_LENGTH); sep0 = 1; names0 = 0;
    ctx.file = 0; ctx.write_item_names = names0; ctx.separate_values = sep0; ctx.depth = 1; ctx.version = 0; ctx.last_column = col0;
    v = build(); vout_len = 0;
    rc = __CPROVER_file_local_ciffile_c_write_item(NULL, v, &ctx);
    V_ASSERT(!sink_badfmt && !sink_overflow, "harness sink adequate");
#if SSHAPE >= 3 && SSHAPE <= 8 && !KEY_FITS
    /* no layout exists: the key's closing delimiter and its colon cannot share a line */
    V_ASSERT(rc == CIF_DISALLOWED_VALUE, "a table key that cannot be written with its colon is refused with CIF_DISALLOWED_VALUE");
    cif_value_free(v); V_COVER("end");
#else
    V_ASSERT(rc == CIF_OK, "a composite value whose leaves can be written is written");
    V_ASSERT(ctx.write_item_names == names0 && ctx.separate_values == sep0, "the context flags are restored");
    cur = col0; for (i = 0; i < vout_len; i++) { if (vout[i] == 0x0a) { if (cur > maxline) maxline = cur; cur = 0; } else cur++; } if (cur > maxline) maxline = cur;
    V_ASSERT(maxline <= CIF_LINE_LENGTH, "no output line exceeds the line-length limit");
    V_ASSERT(ctx.last_column == cur, "the writer's column bookkeeping matches what it wrote");
    V_ASSERT(col0 == 0 || (vout_len > 0 && is_ws(vout[0])), "the value is separated from what precedes it");
    /* split at whitespace and brackets / braces in one pass, comparing with the expected tokens on the fly; a key token ends with its colon */
    { int j = 0, intok = 0; UChar prev = 0;
      for (i = 0; i < SINK_MAX; i++) if (i < vout_len) {
        UChar c = vout[i];
        if (is_ws(c)) { if (intok) { if (ntok >= nexp || expt[ntok][j] != 0) bad_tok = 1; ntok++; j = 0; intok = 0; } }
        else if (is_br(c)) { if (intok) { if (ntok >= nexp || expt[ntok][j] != 0) bad_tok = 1; ntok++; j = 0; intok = 0; }
                             if (ntok >= nexp || expt[ntok][0] != c || expt[ntok][1] != 0) bad_tok = 1; ntok++; }
        else { if (ntok >= nexp || j >= MAXTL || expt[ntok][j] != c) bad_tok = 1; j++; intok = 1;
               if (c == ':' && prev == 0x27) { if (ntok >= nexp || j > MAXTL || expt[ntok][j] != 0) bad_tok = 1; ntok++; j = 0; intok = 0; } }
        prev = c;
      }
      if (intok) { if (ntok >= nexp || expt[ntok][j] != 0) bad_tok = 1; ntok++; }
    }
    V_ASSERT(ntok == nexp && !bad_tok, "the output is exactly the token sequence the value denotes, in order");
    cif_value_free(v);
    V_COVER("end");
#endif
}
