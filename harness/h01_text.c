/* C01 (text fields): the real decode_text (parser.c) - the decoder of the line-folding and text-prefix protocols - on the
 * body of a text field of KLEN symbolic code units, against the reference decoder oracles/ref_textfield.h (the same one the
 * writer checks of C02 / C13 read their output back with): the value produced is a quoted character value whose text is
 * exactly the decoded content.  CIFV 2: folding and prefix removal on (the CIF 2.0 defaults); CIFV 1: both off (the CIF 1.1
 * defaults): the content is taken literally.  Seams as in h01_scan.c (fill functions = exhausted source; scanner tables set up
 * by the real cif_parse_internal).  No CR in the body (the scan buffer is EOL-normalised, C08). */
#include "vnd.h"
#include <stdlib.h>
#include <unicode/ustring.h>
#include "cif.h"
#include "internal/ciftypes.h"
#include "internal/utils.h"
#include "../oracles/ref_tokenizer.h"
#include "../oracles/ref_textfield.h"
#ifndef KLEN
#define KLEN 4
#endif
#ifndef CIFV
#define CIFV 2
#endif
#define CIF_EOF -1
int __CPROVER_file_local_parser_c_decode_text(struct scanner_s *scanner, UChar *text, int32_t text_length, cif_value_tp **dest);
int cif_parse_internal(struct scanner_s *scanner, int not_utf8, const char *extra_ws, const char *extra_eol, cif_tp *dest);
static UChar in[KLEN + 1];
static int nerr;
static int errcb(int code, size_t line, size_t col, const UChar *t, size_t len, void *d) { nerr++; return 0; }
int __CPROVER_file_local_parser_c_get_first_char(struct scanner_s *s) { s->buffer[0] = ' '; s->buffer_limit = 1; s->at_eof = 1; s->tvalue_start = s->buffer; return CIF_OK; }
int __CPROVER_file_local_parser_c_get_more_chars(struct scanner_s *s) { s->at_eof = 1; return CIF_EOF; }
static int ran;
int __CPROVER_file_local_parser_c_parse_cif(struct scanner_s *s, cif_tp *cif) {
    UChar text[KLEN + 1], exp[KLEN + 1]; cif_value_tp *v = NULL; int i, rc, en, existing = vnd_bool();
    ran = 1;
    for (i = 0; i < KLEN; i++) { text[i] = in[i]; } text[KLEN] = 0;
    if (existing) { rc = cif_value_create(CIF_UNK_KIND, &v); V_ASSUME(rc == CIF_OK); }
    V_ASSERT(s->line_unfolding == ((CIFV >= 2) ? 1 : 0) && s->prefix_removing == ((CIFV >= 2) ? 1 : 0), "folding / prefix decoding default on for CIF 2.0 and off for CIF 1.1");
    rc = __CPROVER_file_local_parser_c_decode_text(s, text, KLEN, &v);
    V_ASSERT(rc == CIF_OK && v != NULL, "decoding a text-field body succeeds (memory available)");
    V_ASSERT(nerr == 0, "no error is reported for a well-formed text-field body");
    V_ASSERT(v->kind == CIF_CHAR_KIND && v->as_char.quoted == CIF_QUOTED && v->as_char.text != NULL, "a text field yields a quoted character value");
#if CIFV >= 2
    en = ref_decode_text(in, KLEN, exp, KLEN + 1);
#else
    en = KLEN; for (i = 0; i < KLEN; i++) exp[i] = in[i];
#endif
    for (i = 0; i <= KLEN; i++) { if (i < en) V_ASSERT(v->as_char.text[i] == exp[i], "the value is the decoded content of the field (prefix removed, folded lines joined)"); else if (i == en) V_ASSERT(v->as_char.text[i] == 0, "the value has the decoded length"); }
    if (en < KLEN) V_COVER_OPT("protocol line / prefixes / fold markers removed");
    cif_value_free(v);
    return CIF_OK;
}
void harness(void) {
    struct scanner_s sc; cif_handler_tp h; int i, rc;
    for (i = 0; i < KLEN; i++) { in[i] = vnd_u16(); V_ASSUME(ref_clean(in[i], CIFV) && in[i] != 0); }
    in[KLEN] = 0;
    { cif_handler_tp z = { 0, 0, 0, 0, 0, 0, 0, 0, 0, 0, 0 }; h = z; }
    sc.char_source = 0; sc.read_func = 0; sc.at_eof = 0; sc.cif_version = CIFV; sc.line_unfolding = 0; sc.prefix_removing = 0; sc.max_frame_depth = 1;
    sc.handler = &h; sc.error_callback = errcb; sc.whitespace_callback = 0; sc.keyword_callback = 0; sc.dataname_callback = 0; sc.user_data = 0;
    rc = cif_parse_internal(&sc, 0, NULL, NULL, NULL);
    V_ASSERT(rc == CIF_OK && ran, "start-up reaches the grammar");
    V_COVER("end");
}
