/* C11 (stage 2): cif_parse_internal resolves the CIF version from the leading magic comment and the provisional version,
 * consumes an initial byte-order mark, switches the scanner to CIF 1.1 rules exactly when version 1 is chosen, reports
 * CIF_WRONG_ENCODING for CIF 2.0 text in a non-UTF-8 encoding and CIF_DISALLOWED_CHAR for a BOM in CIF 1.1, and hands the
 * rewound scanner to the grammar.  Real cif_parse_internal + get_first_char / get_more_chars / scan_to_ws (parser.c);
 * parse_cif (the grammar) is replaced by a recorder.  Input: NIN symbolic 16-bit units (NIN concrete per instance, enumerated). */
#include "vnd.h"
#include <stdlib.h>
#include <unicode/ustring.h>
#include "cif.h"
#include "internal/ciftypes.h"
#include "internal/utils.h"
#ifndef NIN
#define NIN 11
#endif
#define CIF_EOF -1   /* parser.c's private end-of-input code */
int cif_parse_internal(struct scanner_s *scanner, int not_utf8, const char *extra_ws, const char *extra_eol, cif_tp *dest);
static UChar input[NIN]; static unsigned in_pos, in_len;
#if defined(REAL_FILL) && !defined(VERIF_REPLAY)
/* memmove / memcpy specialised to UChar units (as in h08_step.c: CBMC's byte-level models with symbolic sizes exhaust memory) */
void *memmove(void *d, const void *s, size_t n) { UChar *dd = (UChar *) d; const UChar *ss = (const UChar *) s; size_t i, m = n / sizeof(UChar);
    if (dd < ss) { for (i = 0; i < m; i++) dd[i] = ss[i]; } else if (dd > ss) { for (i = m; i > 0; i--) dd[i - 1] = ss[i - 1]; } return d; }
void *memcpy(void *d, const void *s, size_t n) { UChar *dd = (UChar *) d; const UChar *ss = (const UChar *) s; size_t i, m = n / sizeof(UChar);
    for (i = 0; i < m; i++) dd[i] = ss[i]; return d; }
#endif
#ifdef REAL_FILL
/* REAL_FILL: the real get_first_char / get_more_chars run, fed by a character source that hands over the input in chunks of
 * arbitrary size (1 .. what is asked for); used with small NIN to decide what the error callback is handed at start-up (C03). */
static ssize_t rd(void *src, UChar *dest, ssize_t count, int *err) {
    ssize_t n, k; if (in_pos >= in_len || count <= 0) return 0;
#ifdef CHUNK
    n = CHUNK; if (n > count) n = count;                     /* concrete chunk size per instance */
#else
    n = (ssize_t) vnd_range(1, NIN); if (n > count) n = count;
#endif if (n > (ssize_t) (in_len - in_pos)) n = (ssize_t) (in_len - in_pos);
    for (k = 0; k < NIN; k++) if (k < n) dest[k] = input[in_pos + k];
    in_pos += (unsigned) n; return n;
}
#else
static ssize_t rd(void *src, UChar *dest, ssize_t count, int *err) { return 0; }
/* Buffer management is verified on its own (C08); here the two fill functions are replaced by their behaviour for a
 * source that hands over one unit first and then everything else (EOL-normalised), in a buffer larger than the input:
 * get_first_char buffers ONE unit (as the real one does); get_more_chars resets an entirely consumed buffer to its start
 * (the real rule `chars_consumed >= buffer_limit`), otherwise appends in place - with <= 12 units in a 16-unit buffer the
 * compaction / expansion branches of the real function are not reachable. */
int __CPROVER_file_local_parser_c_get_first_char(struct scanner_s *s) {
    if (in_len == 0) { s->at_eof = 1; return CIF_EOF; }
#ifdef FIRST_ALL    /* long inputs (magic-comment logic): everything is buffered by the first fill - the content the scanner sees does not depend on the chunking (C08) and positions stay concrete */
    { unsigned k; for (k = 0; k < NIN; k++) if (k < in_len) s->buffer[k] = input[k]; }
    in_pos = in_len; s->buffer_limit = in_len; s->at_eof = 1; s->tvalue_start = s->buffer;
#else
    s->buffer[0] = input[0]; in_pos = 1;
    s->buffer_limit = 1; s->tvalue_start = s->buffer;
#endif
    if ((input[0] > 0x7E) ? (input[0] != 0xFEFF) : (s->char_class[input[0]] == NO_CLASS)) { int r = s->error_callback(CIF_DISALLOWED_INITIAL_CHAR, 1, 0, s->buffer, 1, s->user_data); if (r != CIF_OK) return r; }
    return CIF_OK;
}
int __CPROVER_file_local_parser_c_get_more_chars(struct scanner_s *s) {
    unsigned k, rest;
    if (in_pos >= in_len) { s->at_eof = 1; return CIF_EOF; }
    rest = in_len - in_pos;
    if ((size_t) (s->text_start - s->buffer) >= s->buffer_limit) {       /* (the copy is written per branch so that positions stay concrete for the solver) */
        s->text_start = s->buffer; s->tvalue_start = s->buffer; s->next_char = s->buffer;
        for (k = 0; k < NIN; k++) if (k < rest) s->buffer[k] = input[in_pos + k];
        s->buffer_limit = rest;
    } else {
        for (k = 0; k < NIN; k++) if (k < rest) s->buffer[s->buffer_limit + k] = input[in_pos + k];
        s->buffer_limit += rest;
    }
    in_pos = in_len; s->at_eof = 1;
    return CIF_OK;
}
#endif
static int nerr, codes[4], reject_at;
static int text_bad, line_bad; static unsigned sink;
static int errcb(int code, size_t line, size_t col, const UChar *t, size_t len, void *d) {
    if (nerr < 4) codes[nerr] = code; nerr++;
    if (line < 1) line_bad = 1;
#if !defined(VERIF_REPLAY) && !defined(NO_ROK)
    if (t != NULL && len > 0 && !__CPROVER_r_ok(t, len * sizeof(UChar))) text_bad = 1;
#elif !defined(VERIF_REPLAY)
#else
    if (t != NULL) { size_t k; for (k = 0; k < len; k++) sink += t[k]; }          /* ASan reports an unreadable text */
#endif
    return (nerr == reject_at) ? code : 0;
}
static int pc_calls, pc_version, pc_rewound, pc_unfold, pc_prefix, pc_bracket_class, pc_first;
int __CPROVER_file_local_parser_c_parse_cif(struct scanner_s *s, cif_tp *cif) {
    pc_calls++; pc_version = s->cif_version; pc_rewound = (s->next_char == s->text_start && s->column == 0); pc_unfold = s->line_unfolding; pc_prefix = s->prefix_removing;
    pc_bracket_class = (int) s->char_class[0x5B]; pc_first = (s->text_start < s->buffer + s->buffer_limit) ? (int) *s->text_start : -1;
    return CIF_OK;
}
static const UChar M[10] = { 0x23, 0x5c, 0x23, 0x43, 0x49, 0x46, 0x5f, 0x32, 0x2e, 0x30 };
static int is_ws(UChar c) { return c == 0x20 || c == 0x09 || c == 0x0a || c == 0x0d; }
void harness(void) {
    struct scanner_s sc; cif_handler_tp h; int v0, not_utf8, rc, i, bom, start, tlen, exp_v, is2, is7; unsigned k;
    for (k = 0; k < NIN; k++) { input[k] = vnd_u16(); V_ASSUME(input[k] != 0x0d); }   /* the fill functions hand over EOL-normalised text (C08) */
#if defined(BOMCASE) && BOMCASE < 2      /* whether the input starts with a byte-order mark is fixed per instance (it decides where the text sits in the buffer) */
    if (NIN > 0) V_ASSUME((input[0] == 0xFEFF) == (BOMCASE == 1));
#endif
    in_len = NIN; in_pos = 0;        /* concrete length per instance (driver enumerates), contents symbolic */
    v0 = vnd_int(); V_ASSUME(v0 == -2 || v0 == 0 || v0 == 1 || v0 == 2); not_utf8 = vnd_bool(); reject_at = vnd_range(0, 2);
    { cif_handler_tp z = { 0, 0, 0, 0, 0, 0, 0, 0, 0, 0, 0 }; h = z; }
    sc.char_source = 0; sc.read_func = rd; sc.at_eof = 0; sc.cif_version = v0; sc.line_unfolding = 0; sc.prefix_removing = 0; sc.max_frame_depth = 1;
    sc.handler = &h; sc.error_callback = errcb; sc.whitespace_callback = 0; sc.keyword_callback = 0; sc.dataname_callback = 0; sc.user_data = 0;
    nerr = 0;
    rc = cif_parse_internal(&sc, not_utf8, NULL, NULL, NULL);
    /* ---- oracle ---- */
    V_ASSERT(!text_bad, "every error callback gets a text pointer that is NULL or readable for the stated length");
    V_ASSERT(!line_bad, "every error callback gets a line number >= 1");
    bom = (in_len > 0 && input[0] == 0xFEFF); start = bom ? 1 : 0;
    tlen = 0; while (start + tlen < (int) in_len && !is_ws(input[start + tlen])) tlen++;
    is2 = (tlen == 10); is7 = (tlen == 10); for (i = 0; i < 10; i++) if (start + i < (int) in_len) { if (input[start + i] != M[i]) { is2 = 0; if (i < 7) is7 = 0; } }
    exp_v = v0;
    if (v0 <= 0) { exp_v = (v0 < 0) ? -v0 : 1; if (is2) exp_v = 2; else if (is7) exp_v = 1; }
    if ((int) in_len <= start) {        /* empty input, or a BOM only */
        V_ASSERT(rc == CIF_OK && pc_calls == 0, "an empty (or BOM-only) input parses to nothing without error");
        V_COVER_OPT("empty");
    } else if (nerr == 0) {
        V_ASSERT(rc == CIF_OK && pc_calls == 1, "with no error reported the grammar is entered once");
        V_ASSERT(pc_version == exp_v, "the CIF version is resolved from the provisional version and the leading magic comment as documented");
        V_ASSERT(pc_rewound && pc_first == (int) input[start], "the grammar starts at the first character after an initial byte-order mark");
        V_ASSERT((pc_bracket_class == OBRAK1_CLASS) == (exp_v == 1), "CIF 1.1 scanning rules are in force exactly when version 1 is selected");
        V_ASSERT(pc_unfold == ((exp_v == 1) ? 0 : 1) && pc_prefix == ((exp_v == 1) ? 0 : 1), "line unfolding / prefix removal default on for CIF 2.0, off for CIF 1.1");
        V_ASSERT(!(exp_v == 1 && bom) && !(exp_v == 2 && not_utf8), "a BOM in CIF 1.1 and CIF 2.0 in a non-UTF-8 encoding do not pass silently");
        if (exp_v == 2 && is2) V_COVER_OPT("magic 2.0 selected");
        if (exp_v == 1 && is7 && !is2) V_COVER_OPT("other magic selects 1.1");
        V_COVER_OPT("clean start");
    } else {
        /* the first error is one the input warrants */
        int c0 = codes[0];
        V_ASSERT(c0 == CIF_DISALLOWED_INITIAL_CHAR || c0 == CIF_DISALLOWED_CHAR || c0 == CIF_WRONG_ENCODING || c0 == CIF_INVALID_CHAR || c0 == CIF_OVERLENGTH_LINE, "only the documented start-of-input diagnostics are raised before the grammar is entered");
        if (c0 == CIF_WRONG_ENCODING) V_ASSERT(exp_v == 2 && not_utf8, "CIF_WRONG_ENCODING only for CIF 2.0 in a non-UTF-8 encoding");
        if (reject_at >= 1 && reject_at <= nerr) V_ASSERT(rc == codes[reject_at - 1] && pc_calls == 0, "a rejected error is returned and stops the parse");
        if (exp_v == 2 && not_utf8) V_COVER_OPT("wrong encoding reported");
        V_COVER_OPT("error path");
    }
    V_COVER("end");
}
