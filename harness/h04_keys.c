/* C04 (C half of the data model mechanism): argument screening, result-code mapping, key discipline and isolation of the
 * storage API, over the SQLite environment stub with the parameter -> column map of the CURRENT sql.h.
 *  - every statement parameter that feeds a `name` column is bound with the NORMALISED spelling of the caller's code /
 *    data name, every `name_orig` parameter with the caller's own spelling, `category` as given;
 *  - invalid codes / names are refused with the documented INVALID_* code before the engine is touched;
 *  - a uniqueness failure of the creating statement is reported as the documented CIF_DUP_* code, absence as CIF_NOSUCH_*;
 *  - handles returned by look-ups carry the original spelling taken from the `name_orig` result column;
 *  - nothing is executed on the connection of another managed CIF.
 * FN concrete per instance; names have a concrete shape (mixed case so that normalisation is visible) and, for FN 20, two
 * symbolic units; engine outcomes symbolic.  What the schema does with the keys (uniqueness, cascades, triggers) is NOT decided. */
#include "vnd.h"
#include <stdlib.h>
#include <string.h>
#include <unicode/ustring.h>
#include "sqlite_env.h"
#include "sql_colmap_gen.h"
#include "cif.h"
#include "internal/ciftypes.h"
#include "internal/utils.h"
#define NSTMT 29
#ifndef NROWS
#define NROWS 2
#endif
static struct sqlite3 db, db2; static struct cif_s cif, cif2;
static UChar CODE[3] = { 'A', 'b', 0 }, CODE_N[3] = { 'a', 'b', 0 };
static UChar N1[3] = { '_', 'Q', 0 }, N1_N[3] = { '_', 'q', 0 }, N2[3] = { '_', 'r', 0 }, CAT[2] = { 'K', 0 }, EMPTY[1] = { 0 };
static UChar ORIG_COL[3] = { 'O', 'o', 0 }, NAME_COL[3] = { 'n', 'n', 0 };
static int bad_name, bad_orig, bad_cat, n_name_binds, constraint_on_insert, done_rows;
static int ueq(const UChar *a, const UChar *b) { int i; if (!a || !b) return 0; for (i = 0; i < 4; i++) { if (a[i] != b[i]) return 0; if (!a[i]) return 1; } return 0; }
static const UChar *exp_norm[2], *exp_orig[2]; static const UChar *exp_cat;
static int step_hook(sqlite3_stmt *s) {
    int k, which = -1;
    if (s->cm >= 0) {
        for (k = 1; k <= COLMAPS[s->cm].nparam && k < SENV_MAXBIND; k++) if (COLMAPS[s->cm].pcol[k] == COL_NAME) {
            const UChar *t = (s->pv[k].type == 2) ? (const UChar *) s->pv[k].p : 0;
            n_name_binds++;
            if (ueq(t, exp_norm[0])) which = 0; else if (exp_norm[1] && ueq(t, exp_norm[1])) which = 1; else bad_name = 1;
        }
        for (k = 1; k <= COLMAPS[s->cm].nparam && k < SENV_MAXBIND; k++) if (COLMAPS[s->cm].pcol[k] == COL_NAME_ORIG) {
            const UChar *t = (s->pv[k].type == 2) ? (const UChar *) s->pv[k].p : 0;
            if (which < 0 || !ueq(t, exp_orig[which])) bad_orig = 1;
        }
        for (k = 1; k <= COLMAPS[s->cm].nparam && k < SENV_MAXBIND; k++) if (COLMAPS[s->cm].pcol[k] == COL_CATEGORY) {
            const UChar *t = (s->pv[k].type == 2) ? (const UChar *) s->pv[k].p : 0;
            if (exp_cat ? !ueq(t, exp_cat) : (t != 0)) bad_cat = 1;
        }
    }
#if FN == 14 || FN == 15
    /* enumeration: the engine delivers NROWS rows and then reports the end (row count concrete per instance: it is the shape of the result) */
    if (strncmp(s->sql, "select container_id as id, name, name_orig", 42) == 0) return (done_rows++ < NROWS) ? SQLITE_ROW : SQLITE_DONE;
#endif
#ifdef ROUTE
    /* route selection for cif_container_set_value: the look-up of the item's loop finds nothing (0: new scalar) or a row (1) */
    if (strncmp(s->sql, "select l.loop_num", 17) == 0 && ROUTE == 0) return SQLITE_DONE;
    if (strncmp(s->sql, "select loop_num from loop where container_id = ? and category", 61) == 0 && ROUTE == 0) return SQLITE_DONE;   /* no scalar loop yet */
#endif
    return -1;
}
static const void *text_hook(sqlite3_stmt *s, int col, int *bytes) {
    if (s->cm >= 0 && col < COLMAPS[s->cm].nres) { if (COLMAPS[s->cm].rcol[col] == COL_NAME_ORIG) { *bytes = 4; return ORIG_COL; } if (COLMAPS[s->cm].rcol[col] == COL_NAME) { *bytes = 4; return NAME_COL; } }
    return 0;
}
static int untouched(struct sqlite3 *d) { return d->level == 0 && d->committed == 0 && d->steps == 0 && d->other_exec == 0; }   /* preparing a statement is not "touching" the store */
static void teardown(struct cif_s *c) { sqlite3_stmt **a = &c->create_block_stmt; int i; for (i = 0; i < NSTMT; i++) if (a[i]) { sqlite3_finalize(a[i]); a[i] = 0; } }
static cif_container_tp *mk_container(void) { cif_container_tp *c = (cif_container_tp *) malloc(sizeof *c); V_MALLOC_OK(c); c->cif = &cif; c->id = 7; c->code = 0; c->code_orig = 0; c->parent_id = -1; return c; }
static cif_loop_tp *mk_loop(cif_container_tp *c) { cif_loop_tp *l = (cif_loop_tp *) malloc(sizeof *l); V_MALLOC_OK(l); l->container = c; l->loop_num = 2; l->category = 0; l->names = 0; return l; }
static void check_keys(void) {
    V_ASSERT(!bad_name, "every `name` parameter is bound with the normalised spelling");
    V_ASSERT(!bad_orig, "every `name_orig` parameter is bound with the caller's spelling of the same name");
    V_ASSERT(!bad_cat, "the `category` parameter is bound as given");
    V_ASSERT(untouched(&db2), "nothing is executed on the connection of another managed CIF");
    V_ASSERT(!db.misuse, "the engine API is used within its contract");
}
void harness(void) {
    int rc; cif_container_tp *c = NULL, *out = NULL; cif_loop_tp *l = NULL, *lout = NULL; cif_value_tp *v = NULL, *got = NULL; cif_packet_tp *p = NULL; UChar *names[3];
    memset(&db, 0, sizeof db); memset(&cif, 0, sizeof cif); cif.db = &db; memset(&db2, 0, sizeof db2); memset(&cif2, 0, sizeof cif2); cif2.db = &db2;
    senv_step_hook = step_hook; senv_text16_hook = text_hook;
    exp_norm[0] = CODE_N; exp_orig[0] = CODE; exp_norm[1] = 0; exp_orig[1] = 0; exp_cat = 0;
#if FN == 1        /* cif_create_block */
    rc = cif_create_block(&cif, CODE, &out); check_keys();
    if (rc == CIF_OK) { V_ASSERT(out && ueq(out->code, CODE_N) && ueq(out->code_orig, CODE), "the handle carries the normalised code and the original spelling"); V_ASSERT(n_name_binds >= 1, "the code was bound"); V_COVER_OPT("created"); }
    V_ASSERT(rc != CIF_INVALID_BLOCKCODE, "a valid code is not refused as invalid");
    if (out) cif_container_free(out);
#elif FN == 2      /* cif_get_block */
    rc = cif_get_block(&cif, CODE, &out); check_keys();
    if (rc == CIF_OK) { V_ASSERT(out && ueq(out->code_orig, ORIG_COL), "the handle's original spelling is the `name_orig` column of the row found"); V_ASSERT(n_name_binds == 1, "the look-up key was bound"); V_COVER_OPT("found"); }
    if (out) cif_container_free(out);
#elif FN == 3      /* cif_container_create_frame */
    c = mk_container(); rc = cif_container_create_frame(c, CODE, &out); check_keys();
    if (rc == CIF_OK) V_ASSERT(out && ueq(out->code, CODE_N) && ueq(out->code_orig, CODE) && out->parent_id == c->id, "frame handle: normalised code, original spelling, parent");
    V_ASSERT(rc != CIF_INVALID_FRAMECODE, "a valid code is not refused as invalid");
    if (out) cif_container_free(out);
#elif FN == 4      /* cif_container_get_frame */
    c = mk_container(); rc = cif_container_get_frame(c, CODE, &out); check_keys();
    if (rc == CIF_OK) V_ASSERT(out && ueq(out->code_orig, ORIG_COL), "frame handle's original spelling comes from the `name_orig` column");
    if (out) cif_container_free(out);
#elif FN == 5      /* cif_container_create_loop, two names */
    c = mk_container(); names[0] = N1; names[1] = N2; names[2] = NULL; exp_norm[0] = N1_N; exp_orig[0] = N1; exp_norm[1] = N2; exp_orig[1] = N2; exp_cat = CAT;
    rc = cif_container_create_loop(c, CAT, names, &lout); check_keys();
    if (rc == CIF_OK) { V_ASSERT(n_name_binds == 2, "each item name was bound once"); V_COVER_OPT("loop created"); }
    V_ASSERT(rc != CIF_INVALID_ITEMNAME && rc != CIF_NULL_LOOP, "valid names are not refused");
    if (lout) cif_loop_free(lout);
#elif FN == 6      /* cif_container_get_item_loop */
    c = mk_container(); exp_norm[0] = N1_N; exp_orig[0] = N1;
    rc = cif_container_get_item_loop(c, N1, &lout); check_keys();
    if (rc == CIF_OK) V_ASSERT(n_name_binds >= 1, "the item name was bound");
    if (lout) cif_loop_free(lout);
#elif FN == 7      /* cif_container_set_value (engine benign; ROUTE enumerated: new scalar / item already present) */
    senv_fail_mode = 1; senv_fail_at = 0;
    c = mk_container(); exp_norm[0] = N1_N; exp_orig[0] = N1; exp_cat = EMPTY; rc = cif_value_create(CIF_NA_KIND, &v); V_ASSUME(rc == CIF_OK);
    rc = cif_container_set_value(c, N1, v); check_keys();
    V_ASSERT(rc == CIF_OK, "with a working engine a valid set_value succeeds");
    V_ASSERT(n_name_binds >= 2, "the item name was bound for the look-up and for the modification");
#elif FN == 8      /* cif_container_get_value */
    c = mk_container(); exp_norm[0] = N1_N; exp_orig[0] = N1;
    rc = cif_container_get_value(c, N1, NULL); check_keys();
#elif FN == 9      /* cif_container_remove_item */
    c = mk_container(); exp_norm[0] = N1_N; exp_orig[0] = N1;
    rc = cif_container_remove_item(c, N1); check_keys();
#elif FN == 10     /* cif_loop_add_item */
    c = mk_container(); l = mk_loop(c); exp_norm[0] = N1_N; exp_orig[0] = N1; rc = cif_value_create(CIF_NA_KIND, &v); V_ASSUME(rc == CIF_OK);
    rc = cif_loop_add_item(l, N1, v); check_keys();
    V_ASSERT(rc != CIF_INVALID_ITEMNAME, "a valid name is not refused");
#elif FN == 11     /* cif_loop_add_packet, item given in mixed case */
    c = mk_container(); l = mk_loop(c); names[0] = N1; names[1] = NULL; exp_norm[0] = N1_N; exp_orig[0] = N1;
    rc = cif_packet_create(&p, names); V_ASSUME(rc == CIF_OK);
    rc = cif_loop_add_packet(l, p); check_keys();
#elif FN == 12     /* cif_loop_set_category: the scalar category "" can be neither given nor taken */
    c = mk_container(); l = mk_loop(c); exp_cat = CAT;
    rc = cif_loop_set_category(l, EMPTY);
    V_ASSERT(rc == CIF_RESERVED_LOOP && untouched(&db), "the scalar category cannot be given to a loop; the engine is not touched");
    rc = cif_loop_set_category(l, CAT); check_keys();
    /* ... nor taken: a handle on the scalar loop (category "") refuses every change, to another category and to none */
    { cif_loop_tp *sl = mk_loop(c); int steps0 = db.steps, mods0 = db.mods; sl->category = (UChar *) malloc(sizeof(UChar)); V_MALLOC_OK(sl->category); sl->category[0] = 0;
      rc = cif_loop_set_category(sl, CAT);
      V_ASSERT(rc == CIF_RESERVED_LOOP && db.steps == steps0 && db.mods == mods0, "the scalar loop's category cannot be replaced by another; nothing is executed");
      rc = cif_loop_set_category(sl, NULL);
      V_ASSERT(rc == CIF_RESERVED_LOOP && db.steps == steps0 && db.mods == mods0, "the scalar loop's category cannot be removed (set to none); nothing is executed");
      V_ASSERT(sl->category != NULL && sl->category[0] == 0, "the handle still names the scalar category");
      sl->container = NULL; cif_loop_free(sl); }
#elif FN == 13     /* cif_container_get_category_loop */
    c = mk_container(); exp_cat = CAT;
    rc = cif_container_get_category_loop(c, CAT, &lout); check_keys();
    if (lout) cif_loop_free(lout);
    rc = cif_container_get_category_loop(c, NULL, &lout);
    V_ASSERT(rc == CIF_INVALID_CATEGORY, "a NULL category is refused with CIF_INVALID_CATEGORY");
#elif FN == 14 || FN == 15     /* cif_get_all_blocks / cif_container_get_all_frames: every handle of the enumeration carries both spellings */
    { cif_container_tp **all = NULL; int i;
#if FN == 14
      rc = cif_get_all_blocks(&cif, &all);
#else
      c = mk_container(); rc = cif_container_get_all_frames(c, &all);
#endif
      V_ASSERT(untouched(&db2) && !db.misuse, "nothing is executed on the connection of another managed CIF; the engine API is used within its contract");
      if (rc == CIF_OK) {
          V_ASSERT(all != NULL, "a successful enumeration delivers an array");
          for (i = 0; i < NROWS; i++) {
              V_ASSERT(all[i] != NULL, "one handle per row delivered by the engine");
              if (all[i]) { V_ASSERT(ueq(all[i]->code, NAME_COL) && ueq(all[i]->code_orig, ORIG_COL), "enumerated handle: code from the `name` column, original spelling from the `name_orig` column");
                            V_ASSERT(all[i]->cif == &cif, "enumerated handle belongs to the CIF enumerated");
#if FN == 15
                            V_ASSERT(all[i]->parent_id == c->id, "an enumerated frame records its parent");
#endif
                            cif_container_free(all[i]); }
          }
          V_ASSERT(all[NROWS] == NULL, "the array is NULL-terminated after the last row");
          free(all); V_COVER_OPT("enumerated");
      } }
#elif FN == 20     /* screening: a representative invalid code / name (BADSEL, enumerated) is refused with the documented code
                      and nothing is executed; the validity predicate itself is decided for all strings in C09 */
    { static const UChar bad[6][3] = { { 0, 0, 0 }, { 'a', ' ', 0 }, { 'a', 0x7f, 0 }, { 0xd800, 'a', 0 }, { 'a', 0xfffe, 0 }, { '_', 0, 0 } };
      UChar s[3]; int is_bad_code = (BADSEL != 5); s[0] = bad[BADSEL][0]; s[1] = bad[BADSEL][1]; s[2] = 0;
      c = mk_container(); l = mk_loop(c); names[0] = s; names[1] = NULL; senv_step_hook = 0; senv_benign = 1;   /* the engine itself works here */
      if (is_bad_code) {
          rc = cif_create_block(&cif, s, NULL); V_ASSERT(rc == CIF_INVALID_BLOCKCODE && untouched(&db), "an invalid block code is refused with CIF_INVALID_BLOCKCODE and nothing is executed");
          rc = cif_container_create_frame(c, s, NULL); V_ASSERT(rc == CIF_INVALID_FRAMECODE && untouched(&db), "an invalid frame code is refused with CIF_INVALID_FRAMECODE and nothing is executed");
      }
      /* none of these is a valid data name (no leading underscore, or nothing after it, or a disallowed character) */
      rc = cif_container_create_loop(c, NULL, names, NULL); V_ASSERT(rc == CIF_INVALID_ITEMNAME && untouched(&db), "an invalid data name is refused with CIF_INVALID_ITEMNAME (create_loop)");
      rc = cif_container_set_value(c, s, NULL); V_ASSERT(rc == CIF_INVALID_ITEMNAME && untouched(&db), "an invalid data name is refused with CIF_INVALID_ITEMNAME (set_value)");
      rc = cif_loop_add_item(l, s, NULL); V_ASSERT(rc == CIF_INVALID_ITEMNAME && untouched(&db), "an invalid data name is refused with CIF_INVALID_ITEMNAME (add_item)");
      names[0] = NULL; rc = cif_container_create_loop(c, NULL, names, NULL); V_ASSERT(rc == CIF_NULL_LOOP && untouched(&db), "an empty name list is refused with CIF_NULL_LOOP"); }
#endif
    teardown(&cif); teardown(&cif2);
    if (p) cif_packet_free(p);
    if (v) cif_value_free(v);
    if (l) cif_loop_free(l);
    if (c) cif_container_free(c);
    V_COVER("end");
}
