/* C08 (byte stage): the real ustream_read_chars (ciffile.c) - the character source behind the scan buffer - over a byte
 * buffer of BS bytes (the field buffer_size; 4096 in cif_parse), a file of NB symbolic bytes of which PRE are already in
 * the buffer (as cif_parse leaves it after reading the signature), and a converter that turns each byte into one code unit
 * (the contract of ucnv_toUnicode for a single-byte encoding: converts while there is input and room, reports
 * U_BUFFER_OVERFLOW_ERROR when input remains and the target is full).  The caller asks for symbolic counts 1..CMAX.
 * Asserted: the units delivered over the successive calls are exactly the bytes of the file, in order, none lost or
 * duplicated, whatever the counts asked for; 0 is returned only when everything has been delivered; no call fails. */
#include "vnd.h"
#include <stdio.h>
#include <stdlib.h>
#include <string.h>
#include <unicode/ustring.h>
#include <unicode/ucnv.h>
#include <unicode/ustdio.h>
#include <sqlite3.h>
#include "cif.h"
#include "internal/ciftypes.h"
#include "internal/utils.h"
#ifndef VERIF_REPLAY
#include "write_context_gen.h"             /* also carries uchar_stream_t, extracted from the current ciffile.c */
#endif
#ifndef NB
#define NB 5
#endif
#ifndef BS
#define BS 4
#endif
#ifndef PRE
#define PRE 2
#endif
#ifndef CMAX
#define CMAX 3
#endif
ssize_t __CPROVER_file_local_ciffile_c_ustream_read_chars(void *char_source, UChar *dest, ssize_t count, int *error_code);
static unsigned char file_bytes[NB + 1]; static unsigned file_pos;
size_t fread(void *ptr, size_t size, size_t nmemb, FILE *stream) {
    size_t k, n = nmemb * size; if (n > NB - file_pos) n = NB - file_pos;
    for (k = 0; k < BS; k++) if (k < n) ((unsigned char *) ptr)[k] = file_bytes[file_pos + k];
    file_pos += (unsigned) n; return n;
}
int ferror(FILE *stream) { return 0; }
void ucnv_toUnicode(UConverter *cnv, UChar **target, const UChar *targetLimit, const char **source, const char *sourceLimit, int32_t *offsets, UBool flush, UErrorCode *err) {
    int k;
    for (k = 0; k < BS + 1; k++) {
        if (*source >= sourceLimit) return;
        if (*target >= targetLimit) { *err = U_BUFFER_OVERFLOW_ERROR; return; }
        *(*target)++ = (UChar) (unsigned char) *(*source)++;
    }
}
void harness(void) {
    uchar_stream_t us; unsigned char buf[BS]; UChar got[NB + CMAX + 1]; int ngot = 0, i, call, err = 0, done = 0; ssize_t n;
    for (i = 0; i < NB; i++) file_bytes[i] = vnd_u8();
    for (i = 0; i < BS; i++) buf[i] = (i < PRE) ? file_bytes[i] : 0;
    file_pos = PRE;
    us.byte_stream = 0; us.byte_buffer = buf; us.buffer_size = BS; us.buffer_position = buf; us.buffer_limit = buf + PRE; us.converter = 0; us.eof_status = 0; us.last_error = 0;
    for (call = 0; call < NB + 3; call++) {
        UChar dest[CMAX]; ssize_t count = (ssize_t) vnd_range(1, CMAX);
        if (done) break;
        n = __CPROVER_file_local_ciffile_c_ustream_read_chars(&us, dest, count, &err);
        V_ASSERT(n >= 0, "no read fails (the file and the converter do not fail)");
        V_ASSERT(n <= count, "never more than was asked for");
        if (n == 0) done = 1;
        for (i = 0; i < CMAX; i++) if (i < n && ngot < NB + CMAX) got[ngot++] = dest[i];
    }
    V_ASSERT(done, "the source reports its end within NB + 3 reads of at least one unit each");
    V_ASSERT(ngot == NB, "exactly the content of the file is delivered - nothing is lost at the end of input or at buffer boundaries");
    for (i = 0; i < NB; i++) if (i < ngot) V_ASSERT(got[i] == (UChar) file_bytes[i], "the units are delivered in order, unchanged");
    V_COVER("end");
}
