/* C07 / C16: cif_buf_write (the growable buffer behind value serialisation) terminates, records the capacity it obtained,
 * never writes past it and preserves earlier content, for a buffer of capacity BCAP with BPOS bytes written receiving BLEN
 * more bytes.  (BCAP, BPOS, BLEN) concrete per instance, enumerated by the driver across the growth-rule boundaries
 * (len < / = / > 1.5 x capacity, capacity too small to grow by the 1.5 rule); byte contents symbolic. */
#include "vnd.h"
#include "value.c"
void harness(void) {
    buffer_tp *b = cif_buf_create(BCAP); write_buffer_tp *w; unsigned char data[BLEN + 1], before[BPOS + 1]; size_t i; int rc;
    V_ASSUME(b != NULL); w = &b->for_writing;
    for (i = 0; i < BPOS; i++) { before[i] = vnd_u8(); w->start[i] = (char) before[i]; }
    w->position = BPOS; w->limit = BPOS;
    for (i = 0; i < BLEN; i++) data[i] = vnd_u8();
    rc = cif_buf_write(w, data, BLEN);
    V_ASSERT(rc == CIF_OK, "write succeeds when memory is available");
    V_ASSERT(w->position == BPOS + BLEN && w->limit == BPOS + BLEN, "position and limit advance by the bytes written");
    V_ASSERT(w->capacity >= w->limit, "recorded capacity covers the data");
    V_ASSERT(__CPROVER_OBJECT_SIZE(w->start) >= w->capacity, "recorded capacity does not exceed the allocation");
    for (i = 0; i < BPOS; i++) V_ASSERT((unsigned char) w->start[i] == before[i], "earlier content preserved across growth");
    for (i = 0; i < BLEN; i++) V_ASSERT((unsigned char) w->start[BPOS + i] == data[i], "new bytes stored");
    /* a second write must not re-derive growth from a stale capacity */
    rc = cif_buf_write(w, data, BLEN);
    V_ASSERT(rc == CIF_OK && w->position == BPOS + 2 * BLEN && w->capacity >= w->limit && __CPROVER_OBJECT_SIZE(w->start) >= w->capacity, "second write keeps the bookkeeping consistent");
    V_COVER("end");
    cif_buf_free(w);
}
