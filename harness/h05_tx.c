/* C05 (and the transaction half of C04/C16): for EVERY sequence of outcomes the storage engine can produce, a storage API
 * call that returns an error leaves nothing it did in effect and leaves the connection's transaction state as it found it;
 * a call that succeeds closes every frame it opened.  Real C glue (cif.c / container.c / loop.c / packet.c / map.c /
 * utils.c) over the SQLite environment stub (stubs/sqlite_env.c): transaction stack with SQLite's semantics, per-frame
 * "dirty" marks, statement life cycle, nondeterministic result codes.  FN selects the function (concrete per instance);
 * names / packets are concrete valid arguments of a fixed shape; symbolic: every engine outcome, the entry state
 * (autocommit or inside an enclosing transaction), lenient flags.
 * NOT decided here: that SQLite's rollback really restores the previous content (trusted), failures detected inside SQL. */
#include "vnd.h"
#include <stdlib.h>
#include <string.h>
#include <unicode/ustring.h>
#include "sqlite_env.h"
#include "cif.h"
#include "internal/ciftypes.h"
#include "internal/utils.h"
#define NSTMT 29
static struct sqlite3 db; static struct cif_s cif; static int entry_level;
static UChar CODE[3] = { 'b', '1', 0 }, NA[3] = { '_', 'a', 0 }, NB2[3] = { '_', 'B', 0 }, NC3[3] = { '_', 'c', 0 }, CAT[2] = { 'k', 0 };
static int dirty_total(void) { int l, t = 0; for (l = 1; l < SENV_MAXLEVEL; l++) if (l <= db.level) t += db.frames[l].dirty; return t; }
static int live_stmts(void) { sqlite3_stmt **a = &cif.create_block_stmt; int i, n = 0; for (i = 0; i < NSTMT; i++) if (a[i]) n++; return n; }
static void setup(void) {
    memset(&db, 0, sizeof db); memset(&cif, 0, sizeof cif); cif.db = &db;
    if (vnd_bool()) { db.level = 1; db.frames[1].dirty = 0; db.frames[1].is_savepoint = 0; }       /* enclosing transaction */
    entry_level = db.level;
}
static void post(int rc) {
    V_ASSERT(!db.overflow, "harness bound on nested savepoints");
    V_ASSERT((db.level == 0) == (entry_level == 0), "the call leaves autocommit / in-transaction state as it found it (no transaction left open or closed)");
    V_ASSERT(db.level >= entry_level, "the call never closes a frame it did not open");
    if (rc != CIF_OK) {
        V_ASSERT(db.committed == 0, "a failed call made nothing durable");
        V_ASSERT(dirty_total() == 0, "a failed call leaves no uncommitted modification behind in the enclosing transaction");
        V_COVER_OPT("error return");
    } else {
        V_ASSERT(db.level == entry_level, "a successful call closes every frame it opened");
        V_COVER_OPT("success return");
    }
    V_ASSERT(live_stmts() == db.nstmt, "every dropped statement was finalised exactly once; no statement object is lost");
}
static void teardown(void) { sqlite3_stmt **a = &cif.create_block_stmt; int i; for (i = 0; i < NSTMT; i++) if (a[i]) { sqlite3_finalize(a[i]); a[i] = 0; } }
static cif_container_tp *mk_container(long long parent) { cif_container_tp *c = (cif_container_tp *) malloc(sizeof *c); V_MALLOC_OK(c); c->cif = &cif; c->id = 7; c->code = 0; c->code_orig = 0; c->parent_id = parent; return c; }
static cif_loop_tp *mk_loop(cif_container_tp *c) { cif_loop_tp *l = (cif_loop_tp *) malloc(sizeof *l); V_MALLOC_OK(l); l->container = c; l->loop_num = 2; l->category = 0; l->names = 0; return l; }
void harness(void) {
    int rc, rc2; cif_container_tp *c = NULL, *out = NULL; cif_loop_tp *l = NULL, *lout = NULL; cif_packet_tp *p = NULL; cif_value_tp *v = NULL;
    UChar *names[4];
    setup();
#if FN == 1        /* cif_create_block */
    rc = cif_create_block_internal(&cif, CODE, vnd_bool(), &out); post(rc);
    V_ASSERT((rc == CIF_OK) == (out != NULL), "the block handle is written exactly on success");
    if (out) cif_container_free(out);
    if (rc != CIF_OK && entry_level == 0) { senv_benign = 1; out = NULL; rc2 = cif_create_block(&cif, CODE, &out); V_ASSERT(rc2 == CIF_OK && out != NULL, "a following valid call is not refused"); cif_container_free(out); senv_benign = 0; }
#elif FN == 2      /* cif_container_create_frame */
    c = mk_container(-1);
    rc = cif_container_create_frame_internal(c, CODE, vnd_bool(), &out); post(rc);
    V_ASSERT((rc == CIF_OK) == (out != NULL), "the frame handle is written exactly on success");
    if (out) cif_container_free(out);
    if (rc != CIF_OK && entry_level == 0) { senv_benign = 1; out = NULL; rc2 = cif_container_create_frame(c, CODE, &out); V_ASSERT(rc2 == CIF_OK && out != NULL, "a following valid call is not refused"); cif_container_free(out); senv_benign = 0; }
#elif FN == 3      /* cif_container_create_loop with NNAMES names */
    c = mk_container(-1); names[0] = NA; names[1] = (NNAMES > 1) ? NB2 : NULL; names[2] = (NNAMES > 2) ? NC3 : NULL; names[3] = NULL;
    rc = cif_container_create_loop(c, vnd_bool() ? CAT : NULL, names, &lout); post(rc);
    V_ASSERT((rc == CIF_OK) == (lout != NULL), "the loop handle is written exactly on success");
    if (lout) cif_loop_free(lout);
    if (rc != CIF_OK) { senv_benign = 1; lout = NULL; rc2 = cif_container_create_loop(c, CAT, names, &lout); V_ASSERT(rc2 == CIF_OK && lout != NULL, "a following valid call is not refused"); cif_loop_free(lout); senv_benign = 0; }
#elif FN == 4      /* cif_loop_add_item */
    c = mk_container(-1); l = mk_loop(c); rc = cif_value_create(CIF_UNK_KIND, &v); V_ASSUME(rc == CIF_OK);
    rc = cif_loop_add_item(l, NA, v); post(rc);
    if (rc != CIF_OK) { senv_benign = 1; rc2 = cif_loop_add_item(l, NA, v); V_ASSERT(rc2 == CIF_OK, "a following valid call is not refused"); senv_benign = 0; }
#elif FN == 5      /* cif_loop_add_packet with NNAMES entries */
    c = mk_container(-1); l = mk_loop(c); names[0] = NA; names[1] = (NNAMES > 1) ? NB2 : NULL; names[2] = (NNAMES > 2) ? NC3 : NULL; names[3] = NULL;
    rc = cif_packet_create(&p, names); V_ASSUME(rc == CIF_OK);
    rc = cif_loop_add_packet(l, p); post(rc);
    if (rc != CIF_OK) { senv_benign = 1; rc2 = cif_loop_add_packet(l, p); V_ASSERT(rc2 == CIF_OK, "a following valid call is not refused"); senv_benign = 0; }
#elif FN == 6      /* cif_container_set_value */
    c = mk_container(-1); rc = cif_value_create(CIF_NA_KIND, &v); V_ASSUME(rc == CIF_OK);
    rc = cif_container_set_value(c, NA, v); post(rc);
    if (rc != CIF_OK && entry_level == 0) { senv_benign = 1; rc2 = cif_container_set_value(c, NA, v); V_ASSERT(rc2 == CIF_OK, "a following valid call is not refused"); senv_benign = 0; }
#elif FN == 7      /* cif_container_remove_item */
    c = mk_container(-1);
    rc = cif_container_remove_item(c, NA); post(rc);
#elif FN == 8      /* cif_loop_set_category */
    c = mk_container(-1); l = mk_loop(c);
    rc = cif_loop_set_category(l, CAT); post(rc);
#elif FN == 9      /* cif_loop_destroy */
    c = mk_container(-1); l = mk_loop(c);
    rc = cif_loop_destroy(l); post(rc);
    if (rc == CIF_OK) l = NULL;                     /* the handle is released on success */
#elif FN == 10     /* cif_container_destroy */
    c = mk_container(-1);
    rc = cif_container_destroy(c); post(rc);
    if (rc == CIF_OK || rc == CIF_INVALID_HANDLE) c = NULL;      /* the handle is also released when it is found to be stale */
#elif FN == 11     /* cif_container_prune */
    c = mk_container(-1);
    rc = cif_container_prune(c); post(rc);
#endif
    V_ASSERT(!db.misuse, "the engine API is used within its contract (no bind on an un-reset statement, no column read without a row)");
    teardown();
    if (p) cif_packet_free(p);
    if (v) cif_value_free(v);
    if (l) cif_loop_free(l);
    if (c) cif_container_free(c);
    V_COVER("end");
}
