/* C02 / C13 (fold points): the real fold_line (ciffile.c) - where write_text breaks a logical line - for ALL lines of NL
 * code units (no newline), with the target length and window write_text passes (both extracted from the current source), folding on, prefixing symbolic.  The contract write_text relies on:
 *   1 <= len <= length of the line;
 *   a continuation never starts with ';' unless the prefix protocol protects it, and never splits a surrogate pair;
 *   the physical line written for the segment - prefix, segment, fold backslash - fits the line limit. */
#include "vnd.h"
#include <stdlib.h>
#include <unicode/ustring.h>
#include <unicode/ustdio.h>
#include <sqlite3.h>
#include "cif.h"
#include "internal/ciftypes.h"
#include "internal/utils.h"
#ifndef VERIF_REPLAY
#include "write_context_gen.h"      /* FOLD_WINDOW_GEN, PREFIX_LENGTH_GEN extracted from the current ciffile.c */
#else
#define FOLD_WINDOW_GEN FOLDING_WINDOW
#define PREFIX_LENGTH_GEN PREFIX_LENGTH
#define FOLD_TARGET_GEN (CIF_LINE_LENGTH - (FOLDING_WINDOW + PREFIX_LENGTH + 1))   /* replay only; the CBMC build takes the expression from the source */
#endif
#ifndef NL
#define NL 18
#endif
int __CPROVER_file_local_ciffile_c_fold_line(const UChar *line, int do_fold, int target_length, int window, int for_prefix);
void harness(void) {
    UChar line[NL + 1]; int i, n, len, for_prefix = vnd_bool(), target = FOLD_TARGET_GEN, semis = 0, max_semis = 0;
    n = vnd_range(1, NL);
    for (i = 0; i < NL; i++) { line[i] = vnd_u16(); V_ASSUME(line[i] != 0x0a); if (i < n) V_ASSUME(line[i] != 0); else V_ASSUME(line[i] == 0); }
    line[NL] = 0;
    /* what write_char guarantees (dispatch queries, oracles/writer_contract.h): folding without prefixes only when no run of FOLDING_WINDOW semicolons occurs */
    for (i = 0; i < NL; i++) { if (line[i] == ';') { if (++semis > max_semis) max_semis = semis; } else semis = 0; }
    V_ASSUME(for_prefix || max_semis < FOLD_WINDOW_GEN);
    V_ASSERT(target > FOLD_WINDOW_GEN, "write_text's own precondition on the line limit");
    len = __CPROVER_file_local_ciffile_c_fold_line(line, 1, target, FOLD_WINDOW_GEN, for_prefix);
    V_ASSERT(len >= 1 && len <= n, "a segment is non-empty and lies within the line");
    if (len < n) {
        V_ASSERT(for_prefix || line[len] != ';', "without the prefix protocol a continuation line does not start with a semicolon");
        V_ASSERT(!((line[len - 1] & 0xfc00) == 0xd800 && (line[len] & 0xfc00) == 0xdc00), "a surrogate pair is not split");
        V_COVER_OPT("folded");
    }
    V_ASSERT((for_prefix ? PREFIX_LENGTH_GEN : 0) + len + 1 <= CIF_LINE_LENGTH, "prefix + segment + fold backslash fit the line limit");
    V_COVER("end");
}
