/* C17: if any single dynamic allocation requested by the library fails during a call, the call returns CIF_MEMORY_ERROR
 * or CIF_ERROR (or NULL), nothing is leaked, freed twice or corrupted, caller-owned objects stay valid and releasable,
 * and the same call succeeds when repeated with memory available.
 * TARGET selects the API call (concrete per instance).  The ordinal of the failing allocation is symbolic (all sites at
 * once) for the small targets and, where the symbolic version gives no verdict in 240 s, concrete and enumerated 0..N by the
 * driver (-DFAILAT=k; 0 = no failure; N is checked to exceed the number of allocation sites reached).  Leaks / double frees / invalid frees are CBMC's memory checks (--memory-leak-check). */
#include "vnd.h"
#include <stdlib.h>
#include <unicode/ustring.h>
#include "cif.h"
#include "internal/ciftypes.h"
#include "internal/utils.h"
extern int vf_armed, vf_count, vf_fail_at, vf_failed;
void __CPROVER_file_local_value_c_cif_buf_free(write_buffer_tp *buf);      /* static in value.c (exported by goto-cc; un-mangled in native replays) */
#define CONCRETE_TEXT
#include "value_shapes.h"
#ifndef MAXALLOC
#define MAXALLOC 12
#endif
#ifndef NSITES
#define NSITES MAXALLOC
#endif
#ifdef FAILAT
static void arm(void) { vf_fail_at = FAILAT; vf_count = 0; vf_failed = 0; vf_armed = 1; }   /* concrete ordinal, enumerated by the driver; 0 = no failure */
#else
static void arm(void) { vf_fail_at = vnd_range(0, MAXALLOC); vf_count = 0; vf_failed = 0; vf_armed = 1; }   /* symbolic ordinal; 0 = no failure */
#endif
static void disarm(void) { vf_armed = 0; }
#define ERRCODE(rc) ((rc) == CIF_MEMORY_ERROR || (rc) == CIF_ERROR)
#define EXPECT(rc) do { if (vf_failed) { V_ASSERT(ERRCODE(rc), "a failed allocation yields CIF_MEMORY_ERROR or CIF_ERROR"); V_COVER_OPT("failure injected"); } \
                        else { V_ASSERT((rc) == CIF_OK, "the call succeeds when no allocation fails"); V_ASSERT(vf_count <= NSITES, "the enumerated / symbolic range of failing ordinals covers every allocation the call makes"); } } while (0)
static UChar N1[3] = { '_', 'a', 0 }, N2[3] = { '_', 'B', 0 }, KB[2] = { 'b', 0 };
void harness(void) {
    int rc; cif_value_tp *v = NULL, *w = NULL, *x = NULL;
#if TARGET == 1            /* cif_value_create(CHAR) */
    arm(); rc = cif_value_create(CIF_CHAR_KIND, &v); disarm(); EXPECT(rc);
    if (rc != CIF_OK) { V_ASSERT(v == NULL, "no object is handed out on failure"); rc = cif_value_create(CIF_CHAR_KIND, &v); V_ASSERT(rc == CIF_OK, "retry succeeds"); }
    cif_value_free(v);
#elif TARGET == 2          /* cif_value_clone of shape SHAPE into a new object */
    v = build(SHAPE);
    arm(); rc = cif_value_clone(v, &w); disarm(); EXPECT(rc);
    if (rc != CIF_OK) { V_ASSERT(w == NULL, "no object is handed out on failure"); rc = cif_value_clone(v, &w); V_ASSERT(rc == CIF_OK, "retry succeeds"); }
    bad = 0; same(SHAPE, v, w); V_ASSERT(!bad, "source intact, clone equal");
    cif_value_free(v); cif_value_free(w);
#elif TARGET == 3          /* cif_value_clone into an existing object */
    v = build(SHAPE); w = build(0);
    arm(); rc = cif_value_clone(v, &w); disarm(); EXPECT(rc);
    V_ASSERT(w != NULL, "the existing target object is still the caller's");
    if (rc != CIF_OK) { rc = cif_value_clone(v, &w); V_ASSERT(rc == CIF_OK, "retry succeeds"); }
    bad = 0; same(SHAPE, v, w); V_ASSERT(!bad, "source intact, clone equal");
    cif_value_free(v); cif_value_free(w);
#elif TARGET == 4          /* cif_value_copy_char */
    { UChar t[3] = { 'x', 'y', 0 }; v = build(0);
      arm(); rc = cif_value_copy_char(v, t); disarm(); EXPECT(rc);
      if (rc != CIF_OK) { rc = cif_value_copy_char(v, t); V_ASSERT(rc == CIF_OK, "retry succeeds"); }
      V_ASSERT(v->kind == CIF_CHAR_KIND && v->as_char.text[0] == 'x', "value holds the text"); cif_value_free(v); }
#elif TARGET == 5          /* cif_value_parse_numb */
    { UChar *t = (UChar *) malloc(7 * sizeof(UChar)); V_MALLOC_OK(t); t[0] = '1'; t[1] = '.'; t[2] = '5'; t[3] = '('; t[4] = '2'; t[5] = ')'; t[6] = 0; v = build(1);
      arm(); rc = cif_value_parse_numb(v, t); disarm(); EXPECT(rc);
      if (rc != CIF_OK) { V_ASSERT(v->kind == CIF_UNK_KIND, "value unmodified on failure"); rc = cif_value_parse_numb(v, t); V_ASSERT(rc == CIF_OK, "retry succeeds"); }
      cif_value_free(v); }
#elif TARGET == 6          /* cif_value_insert_element_at, list of LSZ elements (capacity growth at 0 and 4) */
    { int k; size_t n; v = build(1); rc = cif_value_init(v, CIF_LIST_KIND); V_ASSUME(rc == CIF_OK);
      for (k = 0; k < LSZ; k++) { rc = cif_value_insert_element_at(v, (size_t) k, NULL); V_ASSUME(rc == CIF_OK); }
      w = build(0);
      arm(); rc = cif_value_insert_element_at(v, 0, w); disarm(); EXPECT(rc);
      cif_value_get_element_count(v, &n);
      if (rc != CIF_OK) { V_ASSERT(n == LSZ, "list unchanged on failure"); rc = cif_value_insert_element_at(v, 0, w); V_ASSERT(rc == CIF_OK, "retry succeeds"); cif_value_get_element_count(v, &n); }
      V_ASSERT(n == LSZ + 1, "one element added");
      cif_value_free(w); cif_value_free(v); }
#elif TARGET == 7          /* cif_value_set_item_by_key: new key (KEYSEL 0) or existing key (KEYSEL 1) */
    { size_t n; v = build(5); w = build(0);
      arm(); rc = cif_value_set_item_by_key(v, KEYSEL ? KEYA : KB, w); disarm(); EXPECT(rc);
      cif_value_get_element_count(v, &n);
      if (rc != CIF_OK) { if (!KEYSEL) V_ASSERT(n == 1, "table unchanged on failure"); rc = cif_value_set_item_by_key(v, KEYSEL ? KEYA : KB, w); V_ASSERT(rc == CIF_OK, "retry succeeds"); cif_value_get_element_count(v, &n); }
      V_ASSERT(n == (KEYSEL ? 1 : 2), "entry count");
      rc = cif_value_get_item_by_key(v, KEYA, &x); V_ASSERT(rc == CIF_OK && x != NULL, "pre-existing entry still present");
      cif_value_free(w); cif_value_free(v); }
#elif TARGET == 8          /* cif_value_get_keys */
    { const UChar **keys = NULL; v = build(5);
      arm(); rc = cif_value_get_keys(v, &keys); disarm(); EXPECT(rc);
      if (rc != CIF_OK) { V_ASSERT(keys == NULL, "no array handed out on failure"); rc = cif_value_get_keys(v, &keys); V_ASSERT(rc == CIF_OK, "retry succeeds"); }
      free(keys); cif_value_free(v); }
#elif TARGET == 9          /* cif_packet_create with two names, one needing a separate original spelling */
    { UChar *names[3]; cif_packet_tp *p = NULL; names[0] = N1; names[1] = N2; names[2] = NULL;
      arm(); rc = cif_packet_create(&p, names); disarm(); EXPECT(rc);
      if (rc != CIF_OK) { rc = cif_packet_create(&p, names); V_ASSERT(rc == CIF_OK, "retry succeeds"); }
      V_ASSERT(N1[1] == 'a' && N2[1] == 'B', "caller's names intact");
      cif_packet_free(p); }
#elif TARGET == 10         /* cif_packet_set_item: new name */
    { UChar *names[2]; cif_packet_tp *p = NULL; names[0] = N1; names[1] = NULL; rc = cif_packet_create(&p, names); V_ASSUME(rc == CIF_OK); w = build(0);
      arm(); rc = cif_packet_set_item(p, N2, w); disarm(); EXPECT(rc);
      if (rc != CIF_OK) { rc = cif_packet_set_item(p, N2, w); V_ASSERT(rc == CIF_OK, "retry succeeds"); }
      rc = cif_packet_get_item(p, N1, &x); V_ASSERT(rc == CIF_OK, "pre-existing item still present");
      cif_value_free(w); cif_packet_free(p); }
#elif TARGET == 11         /* cif_value_get_text */
    { UChar *t = NULL; v = build(0);
      arm(); rc = cif_value_get_text(v, &t); disarm(); EXPECT(rc);
      if (rc != CIF_OK) { rc = cif_value_get_text(v, &t); V_ASSERT(rc == CIF_OK, "retry succeeds"); }
      V_ASSERT(t != NULL && t != v->as_char.text, "caller receives its own copy"); free(t); cif_value_free(v); }
#elif TARGET == 12         /* cif_normalize_name (the normalisation pipeline) */
    { UChar *out = NULL;
      arm(); rc = cif_normalize_name(N2 + 1, -1, &out, CIF_INVALID_BLOCKCODE); disarm(); EXPECT(rc);
      if (rc != CIF_OK) { V_ASSERT(out == NULL, "no string handed out on failure"); rc = cif_normalize_name(N2 + 1, -1, &out, CIF_INVALID_BLOCKCODE); V_ASSERT(rc == CIF_OK, "retry succeeds"); }
      V_ASSERT(out != NULL && out[0] == 'b' && out[1] == 0, "normalised form"); free(out); }
#elif TARGET == 13         /* cif_value_init(CHAR) on an existing value */
    v = build(SHAPE);
    arm(); rc = cif_value_init(v, CIF_CHAR_KIND); disarm(); EXPECT(rc);
    if (rc != CIF_OK) { rc = cif_value_init(v, CIF_CHAR_KIND); V_ASSERT(rc == CIF_OK, "retry succeeds"); }
    V_ASSERT(v->kind == CIF_CHAR_KIND, "re-initialised"); cif_value_free(v);
#elif TARGET == 15         /* cif_value_clone of a NUMBER with a standard uncertainty (concrete text "1.5(2)") into an existing value */
    { UChar *t = (UChar *) malloc(7 * sizeof(UChar)); V_MALLOC_OK(t); t[0] = '1'; t[1] = '.'; t[2] = '5'; t[3] = '('; t[4] = '2'; t[5] = ')'; t[6] = 0; v = build(1);
      rc = cif_value_parse_numb(v, t); V_ASSUME(rc == CIF_OK); w = build(INTO_SHAPE);
      arm(); rc = cif_value_clone(v, &w); disarm(); EXPECT(rc);
      V_ASSERT(w != NULL, "the existing target object is still the caller's");
      if (rc != CIF_OK) { rc = cif_value_clone(v, &w); V_ASSERT(rc == CIF_OK, "retry succeeds (the failed call left the target a valid value)"); }
      V_ASSERT(w->kind == CIF_NUMB_KIND && w->as_numb.digits != v->as_numb.digits && w->as_numb.digits[0] == '1' && w->as_numb.su_digits != NULL && w->as_numb.su_digits[0] == '2' && w->as_numb.scale == 1, "clone equals the number");
      cif_value_free(v); cif_value_free(w); }
#elif TARGET == 16         /* cif_value_serialize of shape SHAPE; the initial buffer capacity is shrunk by hook so that growth (realloc) is needed at different writes */
    { buffer_tp *b = NULL, *ref = NULL; size_t i; v = build(SHAPE);
      arm(); rc = cif_value_serialize(v, &b); disarm();
      /* cif_buf_write retries a failed growth with the exact size needed, so a single failure may be absorbed: then the call must succeed with the complete image */
      if (vf_failed && rc != CIF_OK) { V_ASSERT(ERRCODE(rc), "a failed allocation yields CIF_MEMORY_ERROR or CIF_ERROR"); V_COVER_OPT("failure injected"); }
      else { V_ASSERT(rc == CIF_OK, "the call succeeds when no allocation fails"); V_ASSERT(vf_count <= NSITES, "the enumerated range of failing ordinals covers every allocation site"); }
      if (rc != CIF_OK) { V_ASSERT(b == NULL, "no buffer is handed out by a failed call"); rc = cif_value_serialize(v, &b); V_ASSERT(rc == CIF_OK, "retry succeeds"); }
      rc = cif_value_serialize(v, &ref); V_ASSUME(rc == CIF_OK);
      V_ASSERT(b != NULL && b->for_writing.limit == ref->for_writing.limit, "a successful call hands out the complete serialized form (length)");
      for (i = 0; i < 96; i++) if (i < ref->for_writing.limit && i < b->for_writing.limit) V_ASSERT(b->for_writing.start[i] == ref->for_writing.start[i], "a successful call hands out the complete serialized form (bytes)");
      V_ASSERT(ref->for_writing.limit <= 96, "harness compares the whole image");
      __CPROVER_file_local_value_c_cif_buf_free(&b->for_writing); __CPROVER_file_local_value_c_cif_buf_free(&ref->for_writing); cif_value_free(v); }
#elif TARGET == 14         /* cif_u_strdup */
    { UChar *c; arm(); c = cif_u_strdup(N1); disarm(); if (vf_failed) { V_ASSERT(c == NULL, "NULL on allocation failure"); V_COVER_OPT("failure injected"); } else V_ASSERT(c != NULL && c != N1 && c[1] == 'a', "copy"); free(c); }
#endif
    V_COVER("end");
}
