/* C08: get_first_char transfers the first character (and, after a CR, at most one more) without losing or duplicating
 * anything the character source hands over, converting CR / CR LF to LF. */
#include "vnd.h"
#include "parser.c"
#define NIN 4
static UChar input[NIN]; static unsigned in_pos, in_len;
static int errcb(int code, size_t line, size_t col, const UChar *t, size_t len, void *d) { return 0; }
static ssize_t rd(void *src, UChar *dest, ssize_t count, int *err) {
    ssize_t k = 0, n;
    if (count <= 0) return 0;
    n = (ssize_t) vnd_range(1, NIN);                       /* the source may deliver as much as it is asked for */
    while (k < count && k < n && in_pos < in_len) dest[k++] = input[in_pos++];
    return k;
}
void harness(void) {
    struct scanner_s sc; UChar ref[NIN]; unsigned nref = 0, i; int rc;
    for (i = 0; i < NIN; i++) input[i] = vnd_u16();
    in_len = (unsigned) vnd_range(0, NIN); in_pos = 0;
    sc.line_unfolding = 0; sc.prefix_removing = 0; sc.cif_version = 2;
    INIT_V2_SCANNER(&sc, (const char *) 0, (const char *) 0);
    sc.buffer = (UChar *) malloc(BUF_SIZE_INITIAL * sizeof(UChar)); V_MALLOC_OK(sc.buffer);
    sc.buffer_size = BUF_SIZE_INITIAL; sc.buffer_limit = 0; sc.cr_pending = 0;
    sc.next_char = sc.buffer; sc.text_start = sc.buffer; sc.tvalue_start = sc.buffer; sc.tvalue_length = 0;
    sc.read_func = rd; sc.char_source = 0; sc.at_eof = 0; sc.error_callback = errcb; sc.user_data = 0;
    rc = get_first_char(&sc);
    /* reference: normalisation of exactly the units consumed from the source */
    for (i = 0; i < NIN; i++) if (i < in_pos) {
        UChar c = input[i];
        if (c == 0x0a && i > 0 && input[i - 1] == 0x0d) continue;
        ref[nref++] = (c == 0x0d) ? 0x0a : c;
    }
    if (in_len == 0) { V_ASSERT(rc == CIF_EOF && sc.at_eof && sc.buffer_limit == 0, "empty input: EOF"); V_COVER("empty"); }
    else {
        V_ASSERT(rc == CIF_OK, "first character delivered");
        V_ASSERT(sc.buffer_limit == nref, "every unit taken from the source is represented in the buffer (none lost)");
        for (i = 0; i < NIN; i++) if (i < nref && i < sc.buffer_limit) V_ASSERT(sc.buffer[i] == ref[i], "buffer holds the EOL-normalised units");
        if (in_pos > 0 && in_pos < in_len) V_ASSERT((sc.cr_pending != 0) == (input[in_pos - 1] == 0x0d && in_pos > 1), "a second CR is remembered as pending");
        if (in_pos == 2) V_COVER("two units consumed");
        V_COVER("non-empty");
    }
    free(sc.buffer);
}
