/* C09 (validity half): a block/frame code or data name is accepted exactly when it meets CIF's validity rules, and is
 * otherwise refused with the caller-supplied INVALID_* code.  Real cif_normalize_name / _item_name / _table_index from
 * utils.c; unorm_normalize/u_strFoldCase = cheap identity/ASCII-fold model (the screening does not depend on them).
 * CIF_LINE_LENGTH is shrunk with the verification hook so that both sides of the length limit are inside the bound.
 * Permissive points: C1 controls U+0080..U+009F and U+FEFF (property text does not decide them); for codes the exact
 * threshold between L-5 and L code points. */
#include "vnd.h"
#include "utils.c"
#ifndef KLEN
#define KLEN 5
#endif
#define L CIF_LINE_LENGTH
/* reference: 0 = must be refused, 1 = must be accepted, 2 = undecided by the property text */
static int ref_chars(const UChar *s, int len, int *npoints, int ws_matters) {
    int i, verdict = 1; *npoints = 0;
    for (i = 0; i < len; i++) {
        UChar c = s[i];
        (*npoints)++;
        if (c >= 0xd800 && c <= 0xdbff) {
            if (i + 1 < len && s[i + 1] >= 0xdc00 && s[i + 1] <= 0xdfff) {
                if ((c & 0x3f) == 0x3f && (s[i + 1] & 0x3fe) == 0x3fe) return 0;   /* U+xFFFE / U+xFFFF */
                i++;
            } else return 0;                                                         /* unpaired lead */
        } else if (c >= 0xdc00 && c <= 0xdfff) return 0;                             /* unpaired trail */
        else if (c <= 0x20) { if (ws_matters || (c != 9 && c != 10 && c != 13 && c != 0x20)) return 0; }
        else if (c == 0x7f) return 0;
        else if (c >= 0x80 && c <= 0x9f) verdict = 2;
        else if (c >= 0xfdd0 && c <= 0xfdef) return 0;
        else if (c == 0xfffe || c == 0xffff) return 0;
    }
    return verdict;
}
void harness(void) {
    UChar s[KLEN + 1]; int i, len = 0, np, rc, v, which = vnd_range(0, 2); UChar *out = NULL;
    for (i = 0; i < KLEN; i++) s[i] = vnd_u16();
    s[KLEN] = 0;
    while (s[len]) len++;
    if (which == 0) {           /* block / frame code */
        v = ref_chars(s, len, &np, 1);
        if (len == 0) v = 0;
        if (v && np > L) v = 0; else if (v && np > L - 5) v = 2;
        rc = cif_normalize_name(s, -1, &out, CIF_INVALID_BLOCKCODE);
        if (v == 0) { V_ASSERT(rc == CIF_INVALID_BLOCKCODE, "an invalid code is refused with the INVALID_* code"); V_COVER("code refused"); }
        if (v == 1) {
            V_ASSERT(rc == CIF_OK && out != NULL, "a valid code is accepted");
#if CIF_LINE_LENGTH >= 6
            V_COVER("code accepted");
#endif
        }
    } else if (which == 1) {    /* data name */
        v = ref_chars(s, len, &np, 1);
        if (len < 2 || s[0] != '_') v = 0;
        if (v && np > L) v = 0;
        rc = cif_normalize_item_name(s, -1, &out, CIF_INVALID_ITEMNAME);
        if (v == 0) { V_ASSERT(rc == CIF_INVALID_ITEMNAME, "an invalid data name is refused with CIF_INVALID_ITEMNAME"); V_COVER("name refused"); }
        if (v == 1) { V_ASSERT(rc == CIF_OK && out != NULL, "a valid data name is accepted"); V_COVER("name accepted"); }
    } else {                    /* table key: any string of allowed characters, whitespace permitted, no length rule */
        v = ref_chars(s, len, &np, 0);
        rc = cif_normalize_table_index(s, -1, &out, CIF_INVALID_INDEX);
        if (v == 0) { V_ASSERT(rc == CIF_INVALID_INDEX, "a key with disallowed characters is refused with CIF_INVALID_INDEX"); V_COVER("key refused"); }
        if (v == 1) { V_ASSERT(rc == CIF_OK && out != NULL, "a key of allowed characters is accepted"); V_COVER("key accepted"); }
    }
    if (rc == CIF_OK) {
        /* with the identity/ASCII-fold model the normalised form is the folded input: checks NUL termination and length */
        int j; for (j = 0; j <= len; j++) { UChar e = s[j]; if (which != 2 && e >= 'A' && e <= 'Z') e += 32; V_ASSERT(out[j] == e, "normalised output is the (folded) input, NUL-terminated"); }
        free(out);
    } else V_ASSERT(out == NULL, "no output on refusal");
    V_COVER("end");
}
