/* C18: cif_value_set_quoted(NOT_QUOTED) succeeds exactly for the character values CIF 2.0 allows whitespace-delimited,
 * turning "?" and "." into the unknown / not-applicable values; cif_value_try_quoted differs only for strings that
 * contain brackets or braces (left quoted, CIF_OK).  Strings range over the characters CIF 2.0 allows in a value. */
#include "vnd.h"
#include "value.c"
#ifndef KLEN
#define KLEN 5
#endif
static int lc(UChar c) { return (c >= 'A' && c <= 'Z') ? c + 32 : c; }
static int pre(const UChar *s, const char *w) { int i; for (i = 0; w[i]; i++) if (lc(s[i]) != w[i]) return 0; return i; }
static int cif2_char(UChar c) {
    if (c == 9 || c == 10 || c == 13) return 1;
    if (c >= 0x20 && c <= 0x7e) return 1;
    if (c >= 0xa0 && c < 0xd800) return 1;
    if (c >= 0xe000 && c <= 0xfdcf) return 1;
    if (c >= 0xfdf0 && c <= 0xfffd && c != 0xfeff) return 1;
    return 0;
}
void harness(void) {
    UChar *s = (UChar *) malloc((KLEN + 1) * sizeof(UChar)); int i, n, rc, len = 0, has_ws = 0, has_br = 0, reserved, use_try = vnd_bool();
    cif_value_tp v;
    V_MALLOC_OK(s);
    for (i = 0; i < KLEN; i++) { s[i] = vnd_u16(); V_ASSUME(s[i] == 0 || cif2_char(s[i])); }
    s[KLEN] = 0;
    while (s[len]) len++;
    for (i = 0; i < len; i++) {
        if (s[i] == ' ' || s[i] == 9 || s[i] == 10 || s[i] == 13) has_ws = 1;
        if (s[i] == '[' || s[i] == ']' || s[i] == '{' || s[i] == '}') has_br = 1;
    }
    reserved = (s[0] == '_' || s[0] == '#' || s[0] == '$' || s[0] == '\'' || s[0] == '"') || pre(s, "data_") || pre(s, "save_")
        || ((n = pre(s, "loop_")) && !s[n]) || ((n = pre(s, "stop_")) && !s[n]) || ((n = pre(s, "global_")) && !s[n]);
    v.kind = CIF_CHAR_KIND; v.as_char.text = s; v.as_char.quoted = CIF_QUOTED;
    rc = use_try ? cif_value_try_quoted(&v, CIF_NOT_QUOTED) : cif_value_set_quoted(&v, CIF_NOT_QUOTED);
    if (len == 1 && s[0] == '?') { V_ASSERT(rc == CIF_OK && v.kind == CIF_UNK_KIND, "\"?\" set unquoted becomes the unknown value"); V_COVER("unknown"); }
    else if (len == 1 && s[0] == '.') { V_ASSERT(rc == CIF_OK && v.kind == CIF_NA_KIND, "\".\" set unquoted becomes the not-applicable value"); }
    else if (len == 0 || has_ws || reserved) {
        V_ASSERT(rc == CIF_ARGUMENT_ERROR, "empty / whitespace-containing / reserved strings cannot be set unquoted");
        V_ASSERT(v.kind == CIF_CHAR_KIND && v.as_char.quoted == CIF_QUOTED && v.as_char.text == s, "a refused value is unchanged");
        V_COVER("refused");
    } else if (has_br) {
        V_ASSERT(rc == (use_try ? CIF_OK : CIF_ARGUMENT_ERROR), "bracket/brace strings: set_quoted refuses, try_quoted reports OK");
        V_ASSERT(v.kind == CIF_CHAR_KIND && v.as_char.quoted == CIF_QUOTED, "bracket/brace strings stay quoted (not presentable unquoted in CIF 2.0)");
        V_COVER("brackets");
    } else {
        V_ASSERT(rc == CIF_OK && v.kind == CIF_CHAR_KIND && v.as_char.quoted == CIF_NOT_QUOTED && v.as_char.text == s, "a string CIF 2.0 allows whitespace-delimited is set unquoted");
        V_COVER("accepted");
    }
    V_COVER("end");
    cif_value_clean(&v);
}
