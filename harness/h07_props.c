/* C07 (column half): a value handed to the storage layer is bound to the statement parameters of the columns
 * (kind, quoted, val_text, val, val_digits, su_digits, scale) that the read path later takes it from: SET_VALUE_PROPS on
 * the insert / set-all statements followed by GET_VALUE_PROPS on the get-value / loop-values statements returns a value of
 * the same kind, text, quoted status, digits, su digits, scale and sign, in storage of its own.
 * Environment: stubs/sqlite_env.c in column-store mode - parameter number -> column and result index -> column are
 * extracted from the SQL text of the CURRENT internal/sql.h (lib/sql_colmap.py); the engine succeeds.  What SQLite does
 * with the columns (type affinity, UTF-16/UTF-8) is NOT decided.  VKIND / WPATH / RPATH concrete per instance. */
#include "vnd.h"
#include <stdlib.h>
#include <string.h>
#include <unicode/ustring.h>
#include "sqlite_env.h"
#include "cif.h"
#include "internal/ciftypes.h"
#include "internal/utils.h"
#define NSTMT 29
static struct sqlite3 db; static struct cif_s cif;
static UChar NA[3] = { '_', 'a', 0 };
static const void *text_hook(sqlite3_stmt *s, int col, int *bytes) { if (strncmp(s->sql, "select name_orig", 16) == 0 && col == 0) { *bytes = 4; return NA; } return 0; }
#if VKIND == 1
/* the double bound to the numeric "val" column is not what the read path reconstructs the number from (text, digits, su
 * digits, scale are); cif_value_get_number's bignum conversion is replaced by an arbitrary double (it is the subject of C10) */
int cif_value_get_number(cif_value_tp *n, double *val) { *val = 1.5; return CIF_OK; }
#endif
static void teardown(void) { sqlite3_stmt **a = &cif.create_block_stmt; int i; for (i = 0; i < NSTMT; i++) if (a[i]) { sqlite3_finalize(a[i]); a[i] = 0; } }
void harness(void) {
    cif_container_tp cont; cif_loop_tp loop; cif_value_tp *v = NULL, *out = NULL; cif_packet_tp *p = NULL; int rc; UChar *names[2];
    memset(&db, 0, sizeof db); memset(&cif, 0, sizeof cif); cif.db = &db; senv_benign = 1; senv_text16_hook = text_hook;
    cont.cif = &cif; cont.id = 7; cont.code = 0; cont.code_orig = 0; cont.parent_id = -1;
    loop.container = &cont; loop.loop_num = 2; loop.category = 0; loop.names = 0;
    rc = cif_value_create(CIF_UNK_KIND, &v); V_ASSUME(rc == CIF_OK);
#if VKIND == 0         /* char: two symbolic units, symbolic quoted flag */
    { UChar t[3]; t[0] = vnd_u16(); t[1] = vnd_u16(); t[2] = 0; V_ASSUME(t[0] != 0 && t[1] != 0); rc = cif_value_copy_char(v, t); V_ASSUME(rc == CIF_OK); if (vnd_bool()) v->as_char.quoted = CIF_NOT_QUOTED; }
#elif VKIND == 1       /* number */
    { UChar *t = (UChar *) malloc(7 * sizeof(UChar)); V_MALLOC_OK(t); t[0] = '-'; t[1] = '4'; t[2] = '.'; t[3] = '7'; t[4] = '('; t[5] = '2'; t[6] = 0; t[5] = '2';
      { UChar *t2 = (UChar *) realloc(t, 8 * sizeof(UChar)); V_MALLOC_OK(t2); t = t2; t[6] = ')'; t[7] = 0; }
      rc = cif_value_parse_numb(v, t); V_ASSUME(rc == CIF_OK); }      /* concrete text "-4.7(2)": symbolic digits give no verdict in 240 s */
#elif VKIND == 2       /* not applicable */
    rc = cif_value_init(v, CIF_NA_KIND); V_ASSUME(rc == CIF_OK);
#endif                 /* VKIND 3: unknown */
#if WPATH == 0
    rc = cif_container_set_all_values(&cont, NA, v);
#else
    names[0] = NA; names[1] = NULL; rc = cif_packet_create(&p, names); V_ASSUME(rc == CIF_OK); rc = cif_packet_set_item(p, NA, v); V_ASSUME(rc == CIF_OK);
    rc = cif_loop_add_packet(&loop, p);
#endif
    V_ASSERT(rc == CIF_OK, "storing the value succeeds when the engine does");
    V_ASSERT(senv_row_valid, "a mapped insert / update statement was executed");
#if RPATH == 0
    rc = cif_container_get_value(&cont, NA, &out);
    V_ASSERT(rc == CIF_OK && out != NULL, "reading the value back succeeds");
#else
    { cif_pktitr_tp *it = NULL; cif_packet_tp *q = NULL; cif_value_tp *m = NULL;
      rc = cif_loop_get_packets(&loop, &it); V_ASSERT(rc == CIF_OK && it != NULL, "iterator");
      rc = cif_pktitr_next_packet(it, &q); V_ASSERT(rc == CIF_OK && q != NULL, "packet delivered");
      rc = cif_packet_get_item(q, NA, &m); V_ASSERT(rc == CIF_OK && m != NULL, "item present");
      rc = cif_value_clone(m, &out); V_ASSUME(rc == CIF_OK);
      cif_pktitr_abort(it); cif_packet_free(q); }
#endif
    if (out) {
        V_ASSERT(out != v && out->kind == v->kind, "same kind, separate object");
        if (v->kind == CIF_CHAR_KIND) {
            V_ASSERT(out->as_char.text != NULL && out->as_char.text != v->as_char.text, "text in storage of its own");
            V_ASSERT(out->as_char.text[0] == v->as_char.text[0] && out->as_char.text[1] == v->as_char.text[1] && out->as_char.text[2] == 0, "same text");
            V_ASSERT(out->as_char.quoted == v->as_char.quoted, "same quoted status");
            V_COVER_OPT("char value");
        } else if (v->kind == CIF_NUMB_KIND) {
            int i;
            V_ASSERT(out->as_numb.text != NULL && out->as_numb.digits != NULL && out->as_numb.su_digits != NULL, "number parts present");
            for (i = 0; i < 8; i++) V_ASSERT(out->as_numb.text[i] == v->as_numb.text[i], "same number text");
            V_ASSERT(out->as_numb.digits[0] == v->as_numb.digits[0] && out->as_numb.digits[1] == v->as_numb.digits[1] && out->as_numb.digits[2] == 0, "same digits");
            V_ASSERT(out->as_numb.su_digits[0] == v->as_numb.su_digits[0] && out->as_numb.su_digits[1] == 0, "same su digits");
            V_ASSERT(out->as_numb.scale == v->as_numb.scale && out->as_numb.sign == v->as_numb.sign && out->as_numb.quoted == v->as_numb.quoted, "same scale, sign, quoted status");
            V_COVER_OPT("number value");
        }
        cif_value_free(out);
    }
    teardown(); if (p) cif_packet_free(p); cif_value_free(v);
    V_COVER("end");
}
