/* C18 (statistics half): every statistic of cif_analyze_string equals a reference computation written from the field
 * documentation in cif.h (lines are separated by CR LF | CR | LF); the recommended delimiter is one the arguments permit.
 * Permissive points (documentation silent): whether blanks at the very end of the string (no terminator after them)
 * or a VT count as "trailing whitespace". */
#include "vnd.h"
#include "utils.c"
#ifndef KLEN
#define KLEN 4
#endif
void harness(void) {
    UChar s[KLEN + 1]; int i, n, rc; struct cif_string_analysis_s a;
    int au = vnd_bool(), at = vnd_bool(); int32_t lim = vnd_int();
    int len = 0, nlines = 1, first = -1, cur = 0, maxl = 0, run = 0, maxrun = 0, nlsemi = 0, tws_must = 0, tws_may = 0;
    for (i = 0; i < KLEN; i++) s[i] = vnd_u16();
    s[KLEN] = 0;
    V_ASSUME(lim >= 8 && lim <= 2048);
#ifdef KF_EXCLUDE_ANALYZE_CRLF_FIRST
    { int j; for (j = 0; j + 1 < KLEN; j++) V_ASSUME(!(s[j] == 0x0d && s[j + 1] == 0x0a)); }
#endif
    /* reference statistics */
    while (len <= KLEN && s[len]) len++;
    for (i = 0; i < len; i++) {
        UChar c = s[i];
        if (c == 0x0d || c == 0x0a) {
            if (i > 0 && (s[i - 1] == ' ' || s[i - 1] == '\t')) tws_must = 1;
            if (i > 0 && s[i - 1] == 0x0b) tws_may = 1;
            if (c == 0x0d && s[i + 1] == 0x0a) i++;        /* CR LF is one terminator */
            if (s[i + 1] == ';') nlsemi = 1;
            if (first < 0) first = cur;
            if (cur > maxl) maxl = cur;
            cur = 0; nlines++; run = 0;
        } else {
            cur++;
            if (c == ';') { run++; if (run > maxrun) maxrun = run; } else run = 0;
        }
    }
    if (first < 0) first = cur;
    if (cur > maxl) maxl = cur;
    if (len > 0 && (s[len - 1] == ' ' || s[len - 1] == '\t' || s[len - 1] == 0x0b)) tws_may = 1;

    rc = cif_analyze_string(s, au, at, lim, &a);
    V_ASSERT(rc == CIF_OK, "analysis succeeds");
    V_ASSERT(a.length == len, "length is the number of code units");
    V_ASSERT(a.num_lines == nlines, "num_lines is one more than the number of line terminators (CR LF counts once)");
    V_ASSERT(a.length_first == first, "length_first is the length of the first line, terminator excluded");
    V_ASSERT(a.length_last == cur, "length_last is the length of the last line");
    V_ASSERT(a.length_max == maxl, "length_max is the length of the longest line");
    V_ASSERT(a.max_semi_run == maxrun, "max_semi_run is the longest run of semicolons");
    V_ASSERT((a.contains_text_delim != 0) == (nlsemi != 0), "contains_text_delim iff a line terminator is directly followed by ';'");
    if (tws_must) V_ASSERT(a.has_trailing_ws != 0, "blank before a line terminator is reported as trailing whitespace");
    if (!tws_must && !tws_may) V_ASSERT(a.has_trailing_ws == 0, "no trailing whitespace reported when there is none");
    /* the recommendation is one of the documented delimiters and permitted by the arguments */
    n = (int) a.delim_length;
    V_ASSERT(n == 0 || n == 1 || n == 2 || n == 3, "delimiter length is 0..3");
    if (n == 0) V_ASSERT(au && a.delim[0] == 0, "whitespace-delimited form only when allowed");
    if (n == 1) V_ASSERT((a.delim[0] == '\'' || a.delim[0] == '"') && a.delim[1] == 0, "single delimiter is a quote or apostrophe");
    if (n == 3) V_ASSERT(at && (a.delim[0] == '\'' || a.delim[0] == '"') && a.delim[1] == a.delim[0] && a.delim[2] == a.delim[0] && a.delim[3] == 0, "triple delimiter only when allowed");
    if (n == 2) V_ASSERT(a.delim[0] == 0x0a && a.delim[1] == ';' && a.delim[2] == 0, "text-field delimiter is newline-semicolon");
    if (nlines > 1) { V_ASSERT(n >= 2, "a multi-line string is never recommended a single-line form"); V_COVER("multi-line string"); }
    if (n == 0) V_COVER("unquoted recommendation");
    if (n == 3) V_COVER("triple-quote recommendation");
    V_COVER("end");
}
