/* C19 (tables and packets): a table is a map from keys to values, a packet the same with data-name matching.  Both copy
 * what is put into them, expose members by reference, hand removed members to the caller, enumerate keys in the most
 * recently used spelling.  Setup: NPRE entries inserted through the API under concrete inequivalent keys, symbolic values.
 * Then ONE operation OPK (concrete per instance, all enumerated by the driver) with a symbolic key.  Oracle: map model
 * with the container's equivalence (tables: exact match - the NFC model is the identity; packets: ASCII case-insensitive).
 * -DPACKET selects packets (keys '_' + one symbolic unit), default tables (keys of one symbolic unit). */
#include "vnd.h"
#include <stdlib.h>
#include <unicode/ustring.h>
#include "cif.h"
#include "internal/ciftypes.h"
#include "internal/utils.h"
#ifndef NPRE
#define NPRE 2
#endif
#ifdef PACKET
#define KL 2
typedef cif_packet_tp cont_t;
static UChar nrm(UChar c) { return (c >= 'A' && c <= 'Z') ? (UChar) (c + 32) : c; }
static void mk_key(UChar *k) { k[0] = '_'; k[1] = vnd_u16(); k[2] = 0; V_ASSUME(k[1] > 0x20 && k[1] < 0x7f); }
#define C_SET(c, k, v) cif_packet_set_item(c, k, v)
#define C_GET(c, k, v) cif_packet_get_item(c, k, v)
#define C_REMOVE(c, k, v) cif_packet_remove_item(c, k, v)
#define C_KEYS(c, ks) cif_packet_get_names(c, ks)
#define C_FREE(c) cif_packet_free(c)
#else
#define KL 1
typedef cif_value_tp cont_t;
static UChar nrm(UChar c) { return c; }
static void mk_key(UChar *k) { k[0] = vnd_u16(); k[1] = 0; V_ASSUME(k[0] >= 0x20 && k[0] < 0x7f); }
#define C_SET(c, k, v) cif_value_set_item_by_key(c, k, v)
#define C_GET(c, k, v) cif_value_get_item_by_key(c, k, v)
#define C_REMOVE(c, k, v) cif_value_remove_item_by_key(c, k, v)
#define C_KEYS(c, ks) cif_value_get_keys(c, ks)
#define C_FREE(c) cif_value_free(c)
#endif
#define MAXE (NPRE + 1)
static UChar m_key[MAXE][KL + 1]; static UChar m_tag[MAXE]; static int m_unk[MAXE]; static unsigned m_n;
static int same_norm(const UChar *a, const UChar *b) { int i; for (i = 0; i < KL; i++) if (nrm(a[i]) != nrm(b[i])) return 0; return 1; }
static int m_find(const UChar *k) { unsigned i; for (i = 0; i < MAXE; i++) if (i < m_n && same_norm(m_key[i], k)) return (int) i; return -1; }
static void m_set(const UChar *k, UChar tag, int unk) { int i = m_find(k), j; if (i < 0) i = (int) m_n++; for (j = 0; j <= KL; j++) m_key[i][j] = k[j]; m_tag[i] = tag; m_unk[i] = unk; }
static void m_del(int i) { unsigned j; int q; for (j = (unsigned) i; j + 1 < m_n; j++) { for (q = 0; q <= KL; q++) m_key[j][q] = m_key[j + 1][q]; m_tag[j] = m_tag[j + 1]; m_unk[j] = m_unk[j + 1]; } m_n--; }
static cif_value_tp *mk_char(UChar tag) {
    cif_value_tp *v = NULL; UChar t[2]; int rc; t[0] = tag; t[1] = 0;
    rc = cif_value_create(CIF_UNK_KIND, &v); V_ASSUME(rc == CIF_OK);
    rc = cif_value_copy_char(v, t); V_ASSUME(rc == CIF_OK);
    return v;
}
static int val_is(cif_value_tp *v, int i) { return m_unk[i] ? (v->kind == CIF_UNK_KIND) : (v->kind == CIF_CHAR_KIND && v->as_char.text[0] == m_tag[i] && v->as_char.text[1] == 0); }
void harness(void) {
    cont_t *c = NULL; int rc, i; unsigned e; UChar k[KL + 1]; UChar tag; cif_value_tp *v, *got = NULL;
#ifdef PACKET
    rc = cif_packet_create(&c, NULL); V_ASSUME(rc == CIF_OK);
#else
    rc = cif_value_create(CIF_TABLE_KIND, &c); V_ASSUME(rc == CIF_OK);
#endif
    m_n = 0;
#if defined(PACKET) && defined(PRE_BY_CREATE)
    /* the other way a packet comes to hold entries: cif_packet_create() with a name list ("_a", "_B", "_c"), all values unknown.
     * A name given in already-normalised spelling is then held once and serves as both spellings. */
    { static UChar pn[3][3] = { { '_', 'a', 0 }, { '_', 'B', 0 }, { '_', 'c', 0 } }; UChar *names[NPRE + 1];
      for (e = 0; e < NPRE; e++) { names[e] = pn[e]; m_set(pn[e], 0, 1); } names[NPRE] = NULL;
      C_FREE(c); c = NULL; rc = cif_packet_create(&c, names); V_ASSUME(rc == CIF_OK); }
#else
    for (e = 0; e < NPRE; e++) {
        /* pre-inserted keys are concrete and pairwise inequivalent ("a", "B", "c" / "_a", "_B", "_c") so that the shape of the
         * container before the operation is concrete; values symbolic; the operation's key is symbolic */
        UChar pk[KL + 1]; UChar t = vnd_u16(); V_ASSUME(t != 0); pk[KL - 1] = (UChar) ((e == 1) ? 'B' : ('a' + e)); pk[KL] = 0; if (KL == 2) pk[0] = '_'; v = mk_char(t);
        rc = C_SET(c, pk, v); V_ASSERT(rc == CIF_OK, "setting an item under a valid key succeeds");
        m_set(pk, t, 0);
        v->as_char.text[0] = (UChar) (t ^ 1); cif_value_free(v);        /* the container must hold its own copy */
    }
#endif
#ifdef KSEL
    /* concrete key per instance (driver enumerates KSEL): exact / case-variant / absent spellings */
    { static const UChar sel[6] = { 'a', 'A', 'B', 'b', 'c', 'z' }; k[KL - 1] = sel[KSEL]; k[KL] = 0; if (KL == 2) k[0] = '_'; }
#else
    mk_key(k);
#endif
    tag = vnd_u16(); V_ASSUME(tag != 0);
    i = m_find(k);
#if OPK == 0        /* set(k, value) */
    v = mk_char(tag); rc = C_SET(c, k, v); V_ASSERT(rc == CIF_OK, "set succeeds"); m_set(k, tag, 0); cif_value_free(v);
#elif OPK == 1      /* set(k, NULL): unknown value */
    rc = C_SET(c, k, NULL); V_ASSERT(rc == CIF_OK, "set with a NULL value succeeds"); m_set(k, 0, 1);
#elif OPK == 2      /* get */
    rc = C_GET(c, k, &got);
    if (i < 0) V_ASSERT(rc == CIF_NOSUCH_ITEM, "get of an absent key reports CIF_NOSUCH_ITEM");
    else { V_ASSERT(rc == CIF_OK && got != NULL && val_is(got, i), "get finds the item under every equivalent spelling and no other");
#ifndef KSEL
           V_COVER("get hit");
#endif
    }
#elif OPK == 3      /* remove, taking ownership */
    rc = C_REMOVE(c, k, &got);
    if (i < 0) V_ASSERT(rc == CIF_NOSUCH_ITEM, "remove of an absent key reports CIF_NOSUCH_ITEM");
    else { V_ASSERT(rc == CIF_OK && got != NULL && val_is(got, i), "remove hands the member to the caller"); m_del(i); cif_value_free(got); }
#elif OPK == 4      /* remove and discard */
    rc = C_REMOVE(c, k, NULL);
    if (i < 0) V_ASSERT(rc == CIF_NOSUCH_ITEM, "remove of an absent key reports CIF_NOSUCH_ITEM"); else { V_ASSERT(rc == CIF_OK, "remove succeeds"); m_del(i); }
#elif OPK == 5      /* aliasing: a member passed back into its own container under its key */
    rc = C_GET(c, k, &got);
    if (i >= 0) { V_ASSERT(rc == CIF_OK, "get"); rc = C_SET(c, k, got); V_ASSERT(rc == CIF_OK, "setting a member to itself succeeds"); { int j; for (j = 0; j <= KL; j++) m_key[i][j] = k[j]; } }
#endif
    /* final state equals the model */
    { const UChar **keys = NULL; unsigned nk = 0, q; size_t cnt = 0;
      rc = C_KEYS(c, &keys); V_ASSERT(rc == CIF_OK && keys != NULL, "key enumeration succeeds");
      while (nk <= MAXE && keys[nk]) nk++;
      V_ASSERT(nk == m_n, "number of entries follows the map model");
      for (e = 0; e < MAXE; e++) if (e < m_n) {
          int found = 0; cif_value_tp *g = NULL;
          rc = C_GET(c, m_key[e], &g); V_ASSERT(rc == CIF_OK && g != NULL && val_is(g, (int) e), "every model entry is present with its value");
          for (q = 0; q < MAXE; q++) if (q < nk) { int j, eq = 1; for (j = 0; j <= KL; j++) if (keys[q][j] != m_key[e][j]) { eq = 0; break; } if (eq) found = 1; }
          V_ASSERT(found, "keys enumerate in the most recently used spelling");
      }
#ifndef PACKET
      rc = cif_value_get_element_count(c, &cnt); V_ASSERT(rc == CIF_OK && cnt == m_n, "element count of a table");
#endif
      free(keys); }
#if (OPK == 0 || OPK == 1) && !defined(KSEL)
    if (m_n == MAXE) V_COVER("new key added");
    if (m_n == NPRE) V_COVER("existing key replaced");
#endif
    V_COVER("end");
    C_FREE(c);
}
