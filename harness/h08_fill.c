/* C08 / C03: the scan buffer presents the EOL-normalised input stream (CR LF -> LF, CR -> LF), independently of how the
 * character source chunks its data and of where the scanner's consumption points fall, across append, compaction and
 * expansion of the buffer.  Real get_first_char + get_more_chars; BUF_SIZE_INITIAL / BUF_MIN_FILL shrunk by hook.
 * The source delivers the KLEN symbolic input units in arbitrary non-empty chunks; between fills the harness consumes an
 * arbitrary amount (advances text_start / tvalue_start), as the scan functions do. */
#include "vnd.h"
#include "parser.c"
#ifndef KLEN
#define KLEN 5
#endif
#ifndef ROUNDS
#define ROUNDS (KLEN + 2)
#endif
#ifndef VERIF_REPLAY
/* memmove/memcpy specialised to UChar units: every call reachable in this harness copies within/between UChar scan
 * buffers (get_more_chars compaction / expansion).  CBMC's generic byte-level model with a symbolic size is what made
 * this query exhaust memory; natively (replay) the real libc functions are used. */
void *memmove(void *d, const void *s, size_t n) { UChar *dd = (UChar *) d; const UChar *ss = (const UChar *) s; size_t i, m = n / sizeof(UChar);
    if (dd < ss) { for (i = 0; i < m; i++) dd[i] = ss[i]; } else if (dd > ss) { for (i = m; i > 0; i--) dd[i - 1] = ss[i - 1]; } return d; }
void *memcpy(void *d, const void *s, size_t n) { UChar *dd = (UChar *) d; const UChar *ss = (const UChar *) s; size_t i, m = n / sizeof(UChar);
    for (i = 0; i < m; i++) dd[i] = ss[i]; return d; }
#endif
static UChar input[KLEN]; static unsigned in_pos;
static int errcb(int code, size_t line, size_t col, const UChar *t, size_t len, void *d) { return 0; }
static ssize_t rd(void *src, UChar *dest, ssize_t count, int *err) {
    ssize_t n, k = 0;
    if (count <= 0) return 0;
    n = (ssize_t) vnd_range(1, KLEN);
    while (k < count && k < n && in_pos < KLEN) dest[k++] = input[in_pos++];
    return k;
}
void harness(void) {
    struct scanner_s sc; UChar ref[KLEN]; unsigned rlen = 0, dropped = 0; int i, rc, r, done = 0;
    for (i = 0; i < KLEN; i++) input[i] = vnd_u16();
    in_pos = 0;
    /* reference: the whole input with CR LF -> LF and CR -> LF */
    for (i = 0; i < KLEN; i++) { UChar c = input[i]; if (c == 0x0d) { ref[rlen++] = 0x0a; if (i + 1 < KLEN && input[i + 1] == 0x0a) i++; } else ref[rlen++] = c; }
    sc.line_unfolding = 0; sc.prefix_removing = 0; sc.cif_version = 2;
    INIT_V2_SCANNER(&sc, (const char *) 0, (const char *) 0);
    sc.buffer = (UChar *) malloc(BUF_SIZE_INITIAL * sizeof(UChar)); V_MALLOC_OK(sc.buffer);
    sc.buffer_size = BUF_SIZE_INITIAL; sc.buffer_limit = 0;
    sc.next_char = sc.buffer; sc.text_start = sc.buffer; sc.tvalue_start = sc.buffer; sc.tvalue_length = 0;
    sc.read_func = rd; sc.char_source = 0; sc.at_eof = 0; sc.error_callback = errcb; sc.user_data = 0;
    sc.whitespace_callback = 0; sc.keyword_callback = 0; sc.dataname_callback = 0; sc.handler = 0; sc.max_frame_depth = 1;
#if 1
    sc.cr_pending = 0;
#endif
    rc = get_first_char(&sc);
    V_ASSERT(rc == CIF_OK, "first character is delivered (input is non-empty)");
    for (r = 0; r < ROUNDS && !done; r++) {
        unsigned ts = (unsigned) (sc.text_start - sc.buffer), lim = (unsigned) sc.buffer_limit, nts, tv, k;
        /* the invariant: buffer[text_start, limit) is the reference stream from 'dropped' on */
        V_ASSERT(dropped + (lim - ts) <= rlen, "buffer never holds more than the normalised input");
        for (k = 0; k < KLEN; k++) if (ts + k < lim && dropped + k < rlen) V_ASSERT(sc.buffer[ts + k] == ref[dropped + k], "buffered text equals the EOL-normalised input (no stale, lost or duplicated unit)");
        /* consume: the scanner has looked at everything buffered; the current token starts anywhere in it */
        nts = (unsigned) vnd_range(0, KLEN + 3); V_ASSUME(nts >= ts && nts <= lim);
        tv = (unsigned) vnd_range(0, KLEN + 3); V_ASSUME(tv >= nts && tv <= lim);
        dropped += nts - ts;
        sc.text_start = sc.buffer + nts; sc.tvalue_start = sc.buffer + tv; sc.next_char = sc.buffer + lim;
        { unsigned tvoff = tv - nts;
          rc = get_more_chars(&sc);
          V_ASSERT(rc == CIF_OK || rc == CIF_EOF, "get_more_chars returns OK or EOF");
          V_ASSERT((unsigned) (sc.tvalue_start - sc.text_start) == tvoff, "token-relative position survives compaction / expansion");
          V_ASSERT(sc.text_start >= sc.buffer && sc.next_char >= sc.text_start && sc.next_char <= sc.buffer + sc.buffer_limit && sc.buffer_limit <= sc.buffer_size, "scanner pointers stay inside the buffer");
          if (rc == CIF_OK) V_ASSERT(sc.next_char < sc.buffer + sc.buffer_limit, "OK means at least one new character is available at next_char");
          if (sc.buffer_size > BUF_SIZE_INITIAL) V_COVER("buffer expansion reached");
          if (rc == CIF_EOF) {
              unsigned ts2 = (unsigned) (sc.text_start - sc.buffer);
              V_ASSERT(sc.at_eof, "EOF raises the at_eof flag");
              V_ASSERT(dropped + ((unsigned) sc.buffer_limit - ts2) == rlen, "at EOF the whole normalised input has been delivered");
              for (k = 0; k < KLEN; k++) if (ts2 + k < sc.buffer_limit && dropped + k < rlen) V_ASSERT(sc.buffer[ts2 + k] == ref[dropped + k], "buffered text at EOF equals the EOL-normalised input");
              V_COVER("EOF reached");
              done = 1;
          }
        }
    }
    V_ASSERT(done, "EOF is reached within KLEN+2 fills (every fill delivers at least one unit)");
    free(sc.buffer);
}
