/* C02 / C13 (presentation writers, one per query): the real write_unquoted / write_quoted / write_triple_quoted /
 * write_text (+ fold_line) called directly with arguments satisfying the contract that write_char establishes from
 * cif_analyze_string (checked at the call site by the dispatch query), a value text of KLEN symbolic code units (concrete
 * length, no NUL) and a symbolic start column; output captured by the in-memory u_fprintf sink and read back IN THE SAME
 * QUERY with the reference tokenizer (shown equivalent to the real scanner in C01) and the reference text-field decoder.
 * WFN: 1 unquoted, 2 quoted, 3 triple-quoted, 4 text field (fold / prefix flags symbolic).  CIF_LINE_LENGTH = WL via hook. */
#include "vnd.h"
#include "ciffile.c"
#include "../oracles/ref_tokenizer.h"
#include "../oracles/ref_textfield.h"
#ifndef KLEN
#define KLEN 3
#endif
#ifndef WVERSION
#define WVERSION 2
#endif
#ifndef SINK_MAX
#define SINK_MAX 96
#endif
#ifndef FILL
#define FILL 0
#endif
#ifndef TAIL
#define TAIL (FILL > 0)
#endif
#define N (KLEN + FILL + TAIL)
#include "../oracles/writer_contract.h"
extern UChar vout[SINK_MAX]; extern int vout_len, sink_overflow, sink_badfmt;
void harness(void) {
    write_context_t ctx; UChar s[N + 1], orig[N + 1]; int i, rc, col0, maxline = 0, cur;
    UChar dec[4 * N + 12]; int dn;
    /* KLEN symbolic units, then FILL units 'a' (concrete; lets a line exceed the limit within the bound), then one more symbolic unit when FILL > 0 */
    for (i = 0; i < N; i++) { if (i >= KLEN && i < KLEN + FILL) s[i] = 'a'; else { s[i] = vnd_u16(); V_ASSUME(ref_clean(s[i], WVERSION) && s[i] != 0); } orig[i] = s[i]; }
    s[N] = 0; orig[N] = 0;
    col0 = vnd_range(0, CIF_LINE_LENGTH);
    ctx.file = 0; ctx.write_item_names = 0; ctx.separate_values = 1; ctx.depth = 1; ctx.version = (WVERSION == 1) ? 1 : 0; ctx.last_column = col0;
    vout_len = 0;
#define SPACED() do { if (col0 > 0) { V_ASSUME(col0 + 1 <= CIF_LINE_LENGTH); vout[vout_len++] = ' '; ctx.last_column = col0 + 1; } } while (0)   /* ENSURE_SPACED ran before */
#if WFN == 1
    V_ASSUME(pre_unquoted(s, N, N, CIF_LINE_LENGTH)); SPACED();
    rc = write_unquoted(&ctx, s, N);
#elif WFN == 2
    { int delim = vnd_bool() ? 0x27 : '"';
      V_ASSUME(pre_quoted(s, N, N, delim, CIF_LINE_LENGTH)); SPACED();
      rc = write_quoted(&ctx, s, N, (char) delim); }
#elif WFN == 3
    { int delim = vnd_bool() ? 0x27 : '"'; struct wstats w = w_stats(s, N);
      V_ASSUME(pre_triple(s, N, w.first + 3, w.last, delim, CIF_LINE_LENGTH, WVERSION)); SPACED();
      rc = write_triple_quoted(&ctx, s, w.first + 3, w.last, (char) delim); }
#else
    { int fold = vnd_bool(), prefix = vnd_bool();
      V_ASSUME(pre_text(s, N, N, fold, prefix, CIF_LINE_LENGTH, WVERSION, FOLDING_WINDOW));
      if (fold) V_COVER_OPT("folding"); if (prefix) V_COVER_OPT("prefixing");
      rc = write_text(&ctx, s, N, fold, prefix); }
#endif
    V_ASSERT(!sink_badfmt, "only the modelled u_fprintf conversions are used");
    V_ASSERT(!sink_overflow, "harness sink large enough");
    V_ASSERT(rc == CIF_OK, "the writer succeeds on a value that meets its contract");
    cur = col0;
    for (i = 0; i < vout_len; i++) { if (vout[i] == 0x0a) { if (cur > maxline) maxline = cur; cur = 0; } else cur++; }
    if (cur > maxline) maxline = cur;
    V_ASSERT(maxline <= CIF_LINE_LENGTH, "no output line exceeds the line-length limit");
    V_ASSERT(ctx.last_column == cur, "the writer's column bookkeeping matches what it wrote");
    /* read-back: the dispatch of next_token on the first character after the whitespace run, then the reference of the scan
     * function it selects (each shown equivalent to the real scan function by the C01 unit queries) */
    { struct refscan w = ref_scan_ws(vout, vout_len, 0, 1, col0, CIF_LINE_LENGTH), r; int p = w.end; UChar c; const UChar *v; int vlen;
      V_ASSERT(w.nerr == 0 && p < vout_len, "whitespace then a token");
      V_ASSERT(col0 == 0 || p > 0, "the value is separated from what precedes it by whitespace");
      c = vout[p];
#if WFN == 1
      V_ASSERT(c != 0x27 && c != '"' && c != '#' && c != '$' && c != '_' && !(c == ';' && w.col == 0), "first character selects the whitespace-delimited scanner");
      r = ref_scan_unquoted(vout, vout_len, WVERSION, p, w.line, w.col);
      V_ASSERT(!ref_kw(vout + p, r.vlen, "data_") && !ref_kw(vout + p, r.vlen, "save_") && !(r.vlen == 5 && ref_kw(vout + p, 5, "loop_")) && !(r.vlen == 5 && ref_kw(vout + p, 5, "stop_"))
               && !(r.vlen == 7 && ref_kw(vout + p, 7, "global_")) && !(r.vlen == 1 && (c == '?' || c == '.')), "not a reserved word or placeholder");
#elif WFN == 4
      V_ASSERT(c == ';' && w.col == 0, "text field opens with a semicolon in column 1");
      r = ref_scan_text(vout, vout_len, p, w.line, CIF_LINE_LENGTH);
#else
      V_ASSERT(c == 0x27 || c == '"', "opens with a quote");
      r = ref_scan_delim(vout, vout_len, WVERSION, p, w.line, w.col, CIF_LINE_LENGTH);
#endif
      V_ASSERT(r.nerr == 0, "the output is read back without error");
      V_ASSERT(r.end == vout_len, "the output is exactly one token");
      v = vout + r.vstart; vlen = r.vlen;
#if WFN == 4
      dn = ref_decode_text(v, vlen, dec, 4 * N + 12);
#else
      dn = 0; for (i = 0; i < vlen && dn < 4 * N + 12; i++) dec[dn++] = v[i];
#endif
    }
    V_ASSERT(dn == N, "the value read back has the original length");
    for (i = 0; i < N; i++) if (i < dn) V_ASSERT(dec[i] == orig[i], "the value read back has the original text");   /* write_text consumes its argument: compare with the copy */
    V_COVER("end");
}
