/* C06: packet iterators deliver each packet once with a value for every item of the loop (unknown where none is stored),
 * then report CIF_FINISHED; update / remove act only on the packet most recently delivered and are refused with
 * CIF_MISUSE when there is none; update refuses foreign items with CIF_WRONG_LOOP; close commits, abort rolls back, and
 * either way the connection is back in autocommit mode and the iterator is released exactly once.
 * Real loop.c / pktitr.c / packet.c / map.c over the SQLite environment stub.  The loop has the names _a, _b; the iterator's
 * SELECT yields the concrete row script ROWSCRIPT (pairs row_num,name), the call sequence is the concrete string CALLS over
 * n(ext) u(pdate) f(oreign-item update) r(emove) followed by c(lose) or a(bort): both enumerated by the driver, as are
 * the ordinal FAILCALL of the one engine call that fails (0 = none) and whether next() is given a fresh or the previous
 * packet.  (With symbolic engine outcomes no back end finished in 240 s even for the empty loop - measured - so in this
 * family the solver's share is small: CBMC executes each enumerated scenario and checks the assertions and memory safety.)  NOT decided: that the SELECT returns each stored packet once, ordered (SQL). */
#include "vnd.h"
#include <stdlib.h>
#include <string.h>
#include <unicode/ustring.h>
#include "sqlite_env.h"
#include "cif.h"
#include "internal/ciftypes.h"
#include "internal/utils.h"
#define NSTMT 29
static struct sqlite3 db; static struct cif_s cif;
static UChar NA[3] = { '_', 'a', 0 }, NB[3] = { '_', 'b', 0 }, NZ[3] = { '_', 'z', 0 };
static const int rows[][2] = { ROWSCRIPT, { 0, 0 } };          /* { row_num, name index }, terminated by row_num 0 */
static const char calls[] = CALLS;
static int names_pos, vals_pos;
static int is_names(sqlite3_stmt *s) { return strncmp(s->sql, "select name_orig", 16) == 0; }
static int is_values(sqlite3_stmt *s) { return strncmp(s->sql, "select iv.row_num", 17) == 0; }
static int is_category(sqlite3_stmt *s) { return strncmp(s->sql, "select category", 15) == 0; }
static int step_hook(sqlite3_stmt *s) {
    if (is_names(s)) { if (names_pos < 2) { names_pos++; return SQLITE_ROW; } names_pos = 0; return SQLITE_DONE; }
    if (is_values(s)) { if (rows[vals_pos][0] != 0) { vals_pos++; return SQLITE_ROW; } return SQLITE_DONE; }
    return -1;
}
static int int_hook(sqlite3_stmt *s, int col, int *out) {
    if (is_values(s)) { int r = vals_pos - 1; if (col == 0) { *out = (r >= 0) ? rows[r][0] : 0; return 1; } if (col == 2) { *out = CIF_NA_KIND; return 1; } *out = 0; return 1; }
    return 0;
}
static const void *text_hook(sqlite3_stmt *s, int col, int *bytes) {
    if (is_names(s) && col == 0) { *bytes = 4; return (names_pos == 1) ? NA : NB; }
    if (is_values(s) && col == 1) { int r = vals_pos - 1; *bytes = 4; return (r >= 0 && rows[r][1] == 0) ? NA : NB; }
    return 0;
}
static int dirty_total(void) { int l, t = 0; for (l = 1; l < SENV_MAXLEVEL; l++) if (l <= db.level) t += db.frames[l].dirty; return t; }
static int live_stmts(void) { sqlite3_stmt **a = &cif.create_block_stmt; int i, n = 0; for (i = 0; i < NSTMT; i++) if (a[i]) n++; return n; }
static void teardown(void) { sqlite3_stmt **a = &cif.create_block_stmt; int i; for (i = 0; i < NSTMT; i++) if (a[i]) { sqlite3_finalize(a[i]); a[i] = 0; } }
/* reference: packets of the row script */
static int npackets(void) { int i, n = 0, last = 0; for (i = 0; rows[i][0]; i++) if (rows[i][0] != last) { n++; last = rows[i][0]; } return n; }
static int packet_row(int k) { int i, n = 0, last = 0; for (i = 0; rows[i][0]; i++) if (rows[i][0] != last) { if (n == k) return rows[i][0]; n++; last = rows[i][0]; } return 0; }
static int packet_has(int k, int name) { int i, r = packet_row(k); for (i = 0; rows[i][0]; i++) if (rows[i][0] == r && rows[i][1] == name) return 1; return 0; }
void harness(void) {
    cif_container_tp cont; cif_loop_tp loop; cif_pktitr_tp *it = NULL; cif_packet_tp *pkt = NULL, *upd = NULL, *foreign = NULL; int rc, i, delivered = 0, have_current = 0, ended = 0, broken = 0;
    UChar *un[2], *fn[3];
    memset(&db, 0, sizeof db); memset(&cif, 0, sizeof cif); cif.db = &db;
    cont.cif = &cif; cont.id = 7; cont.code = 0; cont.code_orig = 0; cont.parent_id = -1;
    loop.container = &cont; loop.loop_num = 2; loop.category = 0; loop.names = 0;
    senv_fail_mode = 1; senv_fail_at = FAILCALL; senv_calls = 0;      /* the FAILCALL-th fallible engine call fails (0 = none); enumerated */
    senv_step_hook = step_hook; senv_int_hook = int_hook; senv_text16_hook = text_hook; names_pos = 0; vals_pos = 0;
    un[0] = NA; un[1] = NULL; rc = cif_packet_create(&upd, un); V_ASSUME(rc == CIF_OK);
    fn[0] = NA; fn[1] = NZ; fn[2] = NULL; rc = cif_packet_create(&foreign, fn); V_ASSUME(rc == CIF_OK);      /* an item of the loop FOLLOWED BY an item of another loop */

    rc = cif_loop_get_packets(&loop, &it);
    if (FAILCALL == 0) V_ASSERT(rc == (npackets() ? CIF_OK : CIF_EMPTY_LOOP), "iterator granted for a loop with packets, CIF_EMPTY_LOOP otherwise");
    if (rc != CIF_OK) {
        V_ASSERT(it == NULL, "no iterator is handed out on failure");
        V_ASSERT(db.level == 0 && db.committed == 0, "a failed iterator request leaves no transaction open");
        if (npackets() == 0 && rc != CIF_ERROR && rc != CIF_MEMORY_ERROR) V_ASSERT(rc == CIF_EMPTY_LOOP, "a loop without packets yields CIF_EMPTY_LOOP");
        V_COVER_OPT("iterator refused");
    } else {
        V_ASSERT(npackets() > 0, "an iterator is granted only for a loop with packets");
        V_ASSERT(it != NULL && db.level >= 1, "the iterator holds a transaction");
        for (i = 0; calls[i] && !ended; i++) {
            int steps0 = db.steps, dirty0 = dirty_total(), level0 = db.level;
            if (calls[i] == 'n') {
                int fresh = FRESH;
                if (fresh && pkt) { cif_packet_free(pkt); pkt = NULL; }
                rc = cif_pktitr_next_packet(it, &pkt);
                if (broken) continue;
                if (delivered >= npackets()) { V_ASSERT(rc == CIF_FINISHED, "after the last packet the iterator reports CIF_FINISHED"); V_COVER_OPT("finished"); }
                else if (rc == CIF_OK) {
                    cif_value_tp *va = NULL, *vb = NULL; const UChar **nm = NULL; int cnt = 0;
                    V_ASSERT(pkt != NULL, "a packet is delivered");
                    V_ASSERT(cif_packet_get_item(pkt, NA, &va) == CIF_OK && cif_packet_get_item(pkt, NB, &vb) == CIF_OK, "the packet holds every item of the loop");
                    V_ASSERT(va->kind == (packet_has(delivered, 0) ? CIF_NA_KIND : CIF_UNK_KIND) && vb->kind == (packet_has(delivered, 1) ? CIF_NA_KIND : CIF_UNK_KIND), "stored values are delivered, the unknown value where none is stored");
                    if (cif_packet_get_names(pkt, &nm) == CIF_OK) { while (nm[cnt]) cnt++; free(nm); V_ASSERT(cnt == 2, "the packet holds exactly the loop's items"); }
                    delivered++; have_current = 1;
                } else { V_ASSERT(rc != CIF_FINISHED && rc != CIF_MISUSE, "a premature end is not reported as FINISHED"); broken = 1; }   /* engine failure */
            } else if (calls[i] == 'u' || calls[i] == 'f') {
                rc = cif_pktitr_update_packet(it, (calls[i] == 'u') ? upd : foreign);
                if (broken) continue;
                if (!have_current) { V_ASSERT(rc == CIF_MISUSE, "update without a current packet is refused with CIF_MISUSE"); V_ASSERT(db.steps == steps0, "a refused update touches nothing"); V_COVER_OPT("update misuse"); }
                else if (calls[i] == 'f') { V_ASSERT(rc == CIF_WRONG_LOOP || rc == CIF_ERROR, "an item of another loop is refused with CIF_WRONG_LOOP"); V_ASSERT(dirty_total() == dirty0, "a refused update changes nothing"); }
                else if (rc == CIF_OK) { V_ASSERT(db.last_mod_stmt != NULL && db.last_mod_stmt->ival[3] == packet_row(delivered - 1), "update addresses the packet most recently delivered"); V_ASSERT(db.level == level0, "the update's savepoint is released"); V_COVER_OPT("update ok"); }
                else { V_ASSERT(dirty_total() == dirty0, "a failed update changes nothing"); }
            } else if (calls[i] == 'r') {
                rc = cif_pktitr_remove_packet(it);
                if (broken) continue;
                if (!have_current) { V_ASSERT(rc == CIF_MISUSE, "remove without a current packet is refused with CIF_MISUSE"); V_ASSERT(db.steps == steps0, "a refused remove touches nothing"); }
                else if (rc == CIF_OK) { V_ASSERT(db.last_mod_stmt != NULL && db.last_mod_stmt->ival[3] == packet_row(delivered - 1), "remove addresses the packet most recently delivered"); have_current = 0; V_COVER_OPT("remove ok"); }
                else { V_ASSERT(dirty_total() == dirty0, "a failed remove changes nothing"); }
            } else if (calls[i] == 'c') {
                int pending = dirty_total();
                rc = cif_pktitr_close(it); it = NULL; ended = 1;
                V_ASSERT(db.level == 0, "after close the connection is back in autocommit mode");
                if (rc == CIF_OK) V_ASSERT(db.committed == pending, "close makes the changes made through the iterator permanent"); else V_ASSERT(db.committed == 0, "a failed close commits nothing");
                V_COVER_OPT("closed");
            } else if (calls[i] == 'a') {
                rc = cif_pktitr_abort(it); it = NULL; ended = 1;
                V_ASSERT(db.level == 0 && db.committed == 0, "abort discards every change made through the iterator and ends the transaction");
                V_COVER_OPT("aborted");
            }
        }
        if (it) { cif_pktitr_abort(it); it = NULL; }
    }
    V_ASSERT(!db.misuse, "the engine API is used within its contract");
    V_ASSERT(live_stmts() == db.nstmt, "the iterator's statement is finalised exactly once");
    teardown();
    if (pkt) cif_packet_free(pkt);
    cif_packet_free(upd); cif_packet_free(foreign);
    V_COVER("end");
}
