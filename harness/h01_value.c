/* C01 / C12 (composite values): the real parse_value, parse_list and parse_table (parser.c) driven by a concrete TOKEN
 * SCRIPT through a contract stub of next_token (as in h15_prod.c), with the real value.c / map.c objects underneath and the
 * real decode_text for text-field tokens.  The contents of the value tokens are SYMBOLIC code units (two per token).
 * Script alphabet: V whitespace-delimited value, Q quoted value, T text field, U the token '?', D the token '.', K table key
 * (colon consumed, as the scanner delivers it), ( ) { } delimiters, N a data name (ends the value, for defect scripts).
 * Well-formed scripts (no EXPECT_ERRS): no error is reported, the whole script is consumed, and the value produced is
 * exactly the tree the script denotes: kinds, element order, key -> value mapping with the key spelling, texts, quoted flags,
 * '?' / '.' as unknown / not-applicable.  Defect scripts: exactly the expected codes are reported, in order, and the
 * documented recovery yields EXPECT_TOP elements / entries at the top level.
 * Target (EXISTING): 0 a new value object, 1 an existing unknown value, 2 an existing value that still holds a character value
 * (as for every packet of a loop after the first): what it held must not show through. */
#include "vnd.h"
#include <stdlib.h>
#include <string.h>
#include <unicode/ustring.h>
#include <sqlite3.h>
#include "cif.h"
#include "internal/ciftypes.h"
#include "internal/utils.h"
int __CPROVER_file_local_parser_c_parse_value(struct scanner_s *scanner, cif_value_tp **valuep);
#ifndef EXISTING
#define EXISTING 0
#endif
static const char script[] = SCRIPT;
#define NTOK ((int) sizeof(script) - 1)
#define W 3
static UChar buf[W * (sizeof(script)) + W];
static int nerr, codes[6], pos = -1;
static int errcb(int code, size_t line, size_t col, const UChar *t, size_t len, void *x) { if (nerr < 6) codes[nerr] = code; nerr++; return 0; }
int __CPROVER_file_local_parser_c_next_token(struct scanner_s *s) {
    char c;
    if (s->text_start < s->next_char) return CIF_OK;                 /* a ready token is returned again */
    pos = (int) ((s->text_start - s->buffer) / W);
    if (pos >= NTOK) { pos = NTOK; s->ttype = END; s->tvalue_start = s->text_start; s->tvalue_length = 0; return CIF_OK; }
    c = script[pos];
    s->tvalue_start = s->text_start; s->tvalue_length = 2; s->next_char = s->text_start + W;
    s->ttype = (c == 'N') ? NAME : (c == 'V' || c == 'U' || c == 'D') ? VALUE : (c == 'Q') ? QVALUE : (c == 'T') ? TVALUE : (c == 'K') ? KEY
             : (c == '(') ? OLIST : (c == ')') ? CLIST : (c == '{') ? OTABLE : CTABLE;
    if (c == 'U' || c == 'D' || c == '(' || c == ')' || c == '{' || c == '}') s->tvalue_length = 1;
    return CIF_OK;
}
/* cif_value_set_quoted / cif_value_try_quoted by contract (the real ones are decided in C18): a text that scan_unquoted can deliver
 * may be flagged unquoted */
int cif_value_set_quoted(cif_value_tp *v, cif_quoted_tp q) { if (v->kind != CIF_CHAR_KIND && v->kind != CIF_NUMB_KIND) return CIF_ARGUMENT_ERROR; v->as_char.quoted = q; return CIF_OK; }
int cif_value_try_quoted(cif_value_tp *v, cif_quoted_tp q) { return cif_value_set_quoted(v, q); }
/* the tree the script denotes, checked recursively against the value; returns the position after the construct */
static int bad;
static int is_val(char c) { return c == 'V' || c == 'Q' || c == 'T' || c == 'U' || c == 'D' || c == '(' || c == '{'; }
/* positions depend on the script only (concrete), so that the structure of the comparison does not depend on the data */
static int skip(int p, int depth) {
    char c = script[p]; int q;
    if (p >= NTOK || depth > 4) return NTOK;
    if (c == '(') { q = p + 1; while (q < NTOK && script[q] != ')') q = skip(q, depth + 1); return q + 1; }
    if (c == '{') { q = p + 1; while (q < NTOK && script[q] != '}') q = skip(q + 1, depth + 1); return q + 1; }
    return p + 1;
}
static void check(cif_value_tp *v, int p, int depth) {
    char c = script[p]; size_t n = 0; cif_value_tp *e = NULL;
    if (v == NULL || depth > 3) { bad = 1; return; }
    if (c == 'U') { if (v->kind != CIF_UNK_KIND) bad = 1; }
    else if (c == 'D') { if (v->kind != CIF_NA_KIND) bad = 1; }
    else if (c == 'V' || c == 'Q' || c == 'T') {
        if (v->kind != CIF_CHAR_KIND || v->as_char.text == NULL) bad = 1;
        else { if (v->as_char.text[0] != buf[W * p] || v->as_char.text[1] != buf[W * p + 1] || v->as_char.text[2] != 0) bad = 1;
               if ((c == 'V') != (v->as_char.quoted == CIF_NOT_QUOTED)) bad = 1; }
    } else if (c == '(') {
        int q = p + 1, k = 0;
        if (v->kind != CIF_LIST_KIND) { bad = 1; return; }
        while (q < NTOK && script[q] != ')') { e = NULL; if (cif_value_get_element_at(v, (size_t) k, &e) != CIF_OK || e == NULL) bad = 1; else check(e, q, depth + 1); q = skip(q, depth + 1); k++; }
        if (cif_value_get_element_count(v, &n) != CIF_OK || (int) n != k) bad = 1;
    } else if (c == '{') {
        int q = p + 1, k = 0;
        if (v->kind != CIF_TABLE_KIND) { bad = 1; return; }
        while (q < NTOK && script[q] != '}') {
            UChar key[3]; key[0] = buf[W * q]; key[1] = buf[W * q + 1]; key[2] = 0; e = NULL;
            if (script[q] != 'K' || cif_value_get_item_by_key(v, key, &e) != CIF_OK || e == NULL) bad = 1; else check(e, q + 1, depth + 1);
            q = skip(q + 1, depth + 1); k++;
        }
        if (cif_value_get_element_count(v, &n) != CIF_OK || (int) n != k) bad = 1;
    } else bad = 1;
}
void harness(void) {
    struct scanner_s sc; cif_handler_tp H; cif_value_tp *v = NULL; int i, rc, existing = EXISTING, endp;      /* target: 0 a new value object, 1 an existing one (concrete per instance) */
    for (i = 0; i < NTOK; i++) {
        char c = script[i]; UChar a = vnd_u16(), b = vnd_u16();
        /* token contents: what the scanner can deliver for that token type (no NUL, no line terminators; a whitespace-delimited
         * value is not a lone ? or . , holds no colon - that is the unquoted-key defect - and its first unit is a letter so that
         * keys stay distinct from each other by their index unit) */
        V_ASSUME(a != 0 && b != 0 && a != 0x0a && b != 0x0a && a != 0x0d && b != 0x0d);
        if (c == 'V') V_ASSUME(a != ':' && b != ':' && a > 0x20 && b > 0x20 && a != '[' && a != ']' && a != '{' && a != '}' && b != '[' && b != ']' && b != '{' && b != '}'
                               && a != 0x27 && a != '"' && a != '#' && a != '_' && a != '$' && a != ';' && a != 0x7f && b != 0x7f && a < 0xd800 && b < 0xd800);
        if (c == 'K') { a = 'K'; b = (UChar) ('a' + i); }              /* keys are concrete and differ (a symbolic key makes the table's shape symbolic; key screening is C09 / C19) */
        if (c == 'U') a = '?'; if (c == 'D') a = '.';
        if (c == '(') a = '['; if (c == ')') a = ']'; if (c == '{') a = '{'; if (c == '}') a = '}';
        if (c == 'T') V_ASSUME(a != '\\' && b != '\\' && a != ';');            /* a body without protocol lines (those are h01_text.c's subject) */
        buf[W * i] = a; buf[W * i + 1] = b; buf[W * i + 2] = (c == 'K') ? ':' : ' ';
    }
    { cif_handler_tp z = { 0, 0, 0, 0, 0, 0, 0, 0, 0, 0, 0 }; H = z; }
    memset(&sc, 0, sizeof sc);
    sc.buffer = buf; sc.buffer_size = sizeof buf / sizeof buf[0]; sc.buffer_limit = W * NTOK; sc.next_char = buf; sc.text_start = buf; sc.tvalue_start = buf; sc.tvalue_length = 0;
    sc.ttype = NAME; sc.line = 1; sc.column = 0; sc.at_eof = 1; sc.cif_version = 2; sc.line_unfolding = 1; sc.prefix_removing = 1; sc.max_frame_depth = 1;
    sc.handler = &H; sc.error_callback = errcb; sc.user_data = 0;
    for (i = 0; i < 160; i++) sc.char_class[i] = GENERAL_CLASS; sc.char_class[0x20] = WS_CLASS; sc.char_class[0x09] = WS_CLASS; sc.char_class[0x0a] = EOL_CLASS; sc.char_class[0x0d] = EOL_CLASS;
    if (existing) { rc = cif_value_create(CIF_UNK_KIND, &v); V_ASSUME(rc == CIF_OK); }
    if (existing == 2) {   /* the target still holds the value parsed before it (parse_loop_packets re-uses one value object per column) */
        UChar old[3]; old[0] = vnd_u16(); old[1] = vnd_u16(); old[2] = 0; V_ASSUME(old[0] != 0 && old[1] != 0);
        rc = cif_value_copy_char(v, old); V_ASSUME(rc == CIF_OK);
    }
    rc = __CPROVER_file_local_parser_c_parse_value(&sc, &v);
#ifndef EXPECT_ERRS
    V_ASSERT(rc == CIF_OK && v != NULL, "a well-formed composite value parses");
    V_ASSERT(nerr == 0, "no error is reported for a well-formed value");
    check(v, 0, 0); endp = skip(0, 0);
    V_ASSERT(!bad, "the value is exactly the tree the tokens denote: kinds, order, keys, texts, quoting, ? and . as unknown / not applicable");
    V_ASSERT(endp == NTOK && sc.text_start == buf + W * NTOK, "exactly the tokens of the value are consumed");
#else
    { static const int expect[] = { EXPECT_ERRS, 0 }; int ne = 0; size_t n = 0; while (expect[ne]) ne++;
      V_ASSERT(nerr == ne, "exactly the defects present are reported");
      for (i = 0; i < 6; i++) if (i < ne && i < nerr) V_ASSERT(codes[i] == expect[i], "each defect of a list / table is reported with its documented code, in order");
      V_ASSERT(rc == CIF_OK && v != NULL, "with every error accepted the value is recovered");
      V_ASSERT(cif_value_get_element_count(v, &n) == CIF_OK && (int) n == EXPECT_TOP, "the documented recovery keeps exactly the expected elements / entries");
      V_ASSERT(sc.text_start == buf + W * EXPECT_CONSUMED, "the token that reveals a missing delimiter is left for the caller");
#ifdef LIVE_KEY_AT      /* the entry introduced by the key token at LIVE_KEY_AT is still a live value object of the table */
      { UChar key[3]; cif_value_tp *e = NULL; key[0] = buf[W * LIVE_KEY_AT]; key[1] = buf[W * LIVE_KEY_AT + 1]; key[2] = 0;
        V_ASSERT(v->kind == CIF_TABLE_KIND && cif_value_get_item_by_key(v, key, &e) == CIF_OK && e != NULL, "the well-formed entry before the defect is kept");
#ifndef VERIF_REPLAY
        V_ASSERT(__CPROVER_r_ok(e, sizeof *e), "the table's entries are live objects after the recovery (nothing the table owns was released)");
#endif
      }
#endif
    }
#endif
#ifndef LIVE_KEY_AT     /* (releasing a table that holds a dangling entry would only blow up the query; this variant runs without memory-leak check) */
    cif_value_free(v);
#endif
    V_COVER("end");
}
