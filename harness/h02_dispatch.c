/* C02 / C13 (choice of presentation): the real write_char (ciffile.c) with the real cif_value_get_text,
 * cif_validate_cif11_characters and cif_analyze_string (utils.c), the four presentation writers replaced by stubs that
 * ASSERT the contract of oracles/writer_contract.h on the arguments they receive and return a symbolic result.  Together
 * with the writer queries (which ASSUME the same contract and prove the read-back) this decides the round trip of a
 * character value compositionally.  The value text has KLEN symbolic code units, FILL concrete 'a' and (if FILL > 0) one
 * more symbolic unit; quoted flag, allow_text (0 for a table key) and the output version are symbolic / per instance. */
#include "vnd.h"
#include <stdlib.h>
#include <string.h>
#include <unicode/ustring.h>
#include <unicode/ustdio.h>
#include <sqlite3.h>
#include "cif.h"
#include "internal/ciftypes.h"
#include "internal/utils.h"
#ifndef VERIF_REPLAY                       /* (the native replay includes ciffile.c itself) */
#include "write_context_gen.h"
#else
#define FOLD_WINDOW_GEN FOLDING_WINDOW
#define PREFIX_LENGTH_GEN PREFIX_LENGTH
#endif                                     /* typedef ... write_context_t, extracted from /repo/src/ciffile.c by the driver on every run */
#include "../oracles/ref_tokenizer.h"
#ifndef KLEN
#define KLEN 3
#endif
#ifndef FILL
#define FILL 0
#endif
#ifndef WVERSION
#define WVERSION 2
#endif
#ifndef TAIL
#define TAIL (FILL > 0)
#endif
#define N (KLEN + FILL + TAIL)
#include "../oracles/writer_contract.h"
int __CPROVER_file_local_ciffile_c_write_char(void *context, cif_value_tp *char_value, int allow_text);
static UChar orig[N + 1]; static int called, which, stub_rc, quoted, allow_text, col0, same_text, ctx_untouched;
static write_context_t ctx;
static void note(int w, void *context, const UChar *text) {
    int i, same = 1; called++; which = w;
    for (i = 0; i <= N; i++) if (text[i] != orig[i]) { same = 0; break; }
    same_text = same; ctx_untouched = (context == (void *) &ctx && ctx.last_column == col0);
}
int __CPROVER_file_local_ciffile_c_write_unquoted(void *context, const UChar *text, int32_t length) {
    note(1, context, text);
    V_ASSERT(same_text && pre_unquoted(orig, N, length, CIF_LINE_LENGTH), "write_unquoted is chosen only for a value that reads back bare");
    V_ASSERT(!quoted, "a quoted value is never written bare");
    return stub_rc;
}
int __CPROVER_file_local_ciffile_c_write_quoted(void *context, const UChar *text, int32_t length, char delimiter) {
    note(2, context, text);
    V_ASSERT(same_text && pre_quoted(orig, N, length, (unsigned char) delimiter, CIF_LINE_LENGTH), "write_quoted is chosen only for a one-line value without its delimiter that fits a line");
    return stub_rc;
}
int __CPROVER_file_local_ciffile_c_write_triple_quoted(void *context, const UChar *text, int32_t line1_length, int32_t last_line_length, char delimiter) {
    note(3, context, text);
    V_ASSERT(same_text && pre_triple(orig, N, line1_length, last_line_length, (unsigned char) delimiter, CIF_LINE_LENGTH, WVERSION), "write_triple_quoted is chosen only for a CIF 2.0 value without the closing delimiter whose first and last lines fit");
    return stub_rc;
}
int __CPROVER_file_local_ciffile_c_write_text(void *context, UChar *text, int32_t length, int fold, int prefix) {
    note(4, context, text);
    V_ASSERT(same_text && pre_text(orig, N, length, fold, prefix, CIF_LINE_LENGTH, WVERSION, FOLD_WINDOW_GEN), "write_text gets the folding / prefixing the value needs");
    V_ASSERT(allow_text, "a text field is never used where it is not allowed (table keys)");
    if (fold) V_COVER_OPT("folding requested"); if (prefix) V_COVER_OPT("prefixing requested");
    return stub_rc;
}
void harness(void) {
    cif_value_tp v;
    V_ASSERT(PREFIX_LENGTH_GEN == WRITER_PREFIX_LENGTH, "the contract uses the prefix length of the current source"); UChar *s = (UChar *) malloc((N + 1) * sizeof(UChar)); int i, rc, all11 = 1; struct wstats w;
    V_MALLOC_OK(s);
    for (i = 0; i < N; i++) {
        if (i >= KLEN && i < KLEN + FILL) s[i] = 'a'; else { s[i] = vnd_u16(); V_ASSUME(s[i] != 0 && s[i] != 0x0d);
#if WVERSION == 2
            V_ASSUME(ref_clean(s[i], 2));
#endif
        }
        orig[i] = s[i]; if (!ref_clean(s[i], 1)) all11 = 0;
    }
    s[N] = 0; orig[N] = 0;
    quoted = vnd_bool(); allow_text = vnd_bool(); stub_rc = vnd_range(0, 200); col0 = vnd_range(0, CIF_LINE_LENGTH);
    v.kind = CIF_CHAR_KIND; v.as_char.text = s; v.as_char.quoted = quoted ? CIF_QUOTED : CIF_NOT_QUOTED;
    ctx.file = 0; ctx.write_item_names = 0; ctx.separate_values = 1; ctx.depth = 1; ctx.version = (WVERSION == 1) ? 1 : 0; ctx.last_column = col0;
    rc = __CPROVER_file_local_ciffile_c_write_char(&ctx, &v, allow_text);
    w = w_stats(orig, N);
    V_ASSERT(called <= 1, "at most one presentation is written");
    if (called) { V_ASSERT(rc == stub_rc, "the writer's result is returned"); V_ASSERT(ctx_untouched, "the writer gets the context as it was"); }
    else {
#if WVERSION == 2
        V_ASSERT(!allow_text && rc == CIF_DISALLOWED_VALUE, "in CIF 2.0 mode only a table key may be refused, with CIF_DISALLOWED_VALUE");
#else
        V_ASSERT(rc == CIF_DISALLOWED_CHAR || rc == CIF_DISALLOWED_VALUE, "CIF 1.1 output refuses with one of the two documented codes");
        if (rc == CIF_DISALLOWED_CHAR) V_COVER_OPT("refused: character"); else V_COVER_OPT("refused: value");
#endif
    }
#if WVERSION == 1
    V_ASSERT((rc == CIF_DISALLOWED_CHAR && !called) == !all11, "CIF_DISALLOWED_CHAR exactly when a character is outside the CIF 1.1 set");
#endif
    if (which == 1) V_COVER_OPT("bare"); if (which == 2) V_COVER_OPT("quoted"); if (which == 3) V_COVER_OPT("triple-quoted"); if (which == 4) V_COVER_OPT("text field");
    (void) w;
    free(s);
    V_COVER("end");
}
