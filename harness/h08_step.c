/* C08 / C03: ONE fill step of the scan buffer from an ARBITRARY valid scanner state (inductive form).
 * Invariant I: buffer[text_start, buffer_limit) is a slice of the EOL-normalised input, and cr_pending says whether the
 * last raw unit read was a CR.  Step: get_more_chars() with a character source that returns an arbitrary chunk (arbitrary
 * content, arbitrary length 0..CHUNK, 0 = EOF).  Post: the logical buffer is the old logical buffer followed by the
 * normalisation of exactly the raw units read (CR LF -> LF, CR -> LF, a CR LF pair split across two reads counted once),
 * token-relative positions survive compaction / expansion, pointers stay in range, OK <=> something new is readable.
 * By induction over fills this gives independence of chunking, of consumption points and of buffer boundaries.
 * BUF_MIN_FILL is shrunk by hook so that append, compaction and expansion all occur with an 8/16-unit buffer. */
#include "vnd.h"
#include "parser.c"
#ifndef CHUNK
#define CHUNK 4
#endif
#ifndef BSIZE
#define BSIZE 8
#endif
#define MAXRAW (2 * CHUNK)
#ifndef VERIF_REPLAY
/* memmove/memcpy specialised to UChar units (all calls reachable here copy UChar scan-buffer text).  CBMC's generic
 * byte-level model with a symbolic size gave a spurious, natively non-reproducible counterexample and needs > 10 GB;
 * natively (replay) the real libc functions are used. */
void *memmove(void *d, const void *s, size_t n) { UChar *dd = (UChar *) d; const UChar *ss = (const UChar *) s; size_t i, m = n / sizeof(UChar);
    if (dd < ss) { for (i = 0; i < m; i++) dd[i] = ss[i]; } else if (dd > ss) { for (i = m; i > 0; i--) dd[i - 1] = ss[i - 1]; } return d; }
void *memcpy(void *d, const void *s, size_t n) { UChar *dd = (UChar *) d; const UChar *ss = (const UChar *) s; size_t i, m = n / sizeof(UChar);
    for (i = 0; i < m; i++) dd[i] = ss[i]; return d; }
#endif
static UChar raw[MAXRAW]; static unsigned nraw; static int reads; static int bad_count;
static int errcb(int code, size_t line, size_t col, const UChar *t, size_t len, void *d) { return 0; }
static ssize_t rd(void *src, UChar *dest, ssize_t count, int *err) {
    ssize_t n, k;
    reads++;
    if (count <= 0) { bad_count = 1; return 0; }
    n = (ssize_t) vnd_range(0, CHUNK);
    if (reads > 2) n = 0;
    if (n > count) n = count;
    for (k = 0; k < n; k++) { UChar c = vnd_u16(); dest[k] = c; if (nraw < MAXRAW) raw[nraw] = c; nraw++; }
    return n;
}
void harness(void) {
    struct scanner_s sc; UChar old[BSIZE]; UChar ref[MAXRAW]; unsigned nold, nref = 0, ts, lim, tv, i, k; int rc, crp;
    sc.buffer = (UChar *) malloc(BSIZE * sizeof(UChar)); V_MALLOC_OK(sc.buffer);
    sc.buffer_size = BSIZE;
    for (i = 0; i < BSIZE; i++) sc.buffer[i] = vnd_u16();
    lim = (unsigned) vnd_range(0, BSIZE); ts = (unsigned) vnd_range(0, BSIZE); tv = (unsigned) vnd_range(0, BSIZE);
    V_ASSUME(ts <= lim && tv >= ts && tv <= lim);
    crp = vnd_bool();
    /* a pending CR was converted to LF and is the last unit buffered (unless already consumed) */
    V_ASSUME(!crp || lim == 0 || ts == lim || sc.buffer[lim - 1] == 0x0a);
    sc.buffer_limit = lim; sc.text_start = sc.buffer + ts; sc.tvalue_start = sc.buffer + tv; sc.tvalue_length = 0;
    sc.next_char = sc.buffer + lim;                       /* callers fill only when everything buffered has been scanned */
    sc.read_func = rd; sc.char_source = 0; sc.at_eof = 0; sc.cr_pending = crp; sc.error_callback = errcb; sc.user_data = 0;
    sc.cif_version = 2; sc.line = 1; sc.column = 0;
    nold = lim - ts;
    for (i = 0; i < BSIZE; i++) if (i < nold) old[i] = sc.buffer[ts + i];
    nraw = 0; reads = 0; bad_count = 0;

    rc = get_more_chars(&sc);

    V_ASSERT(!bad_count, "the character source is always offered room for at least one unit");
    V_ASSERT(nraw <= MAXRAW, "harness bound on raw units");
    /* reference normalisation of exactly the raw units that were read */
    for (i = 0; i < MAXRAW; i++) if (i < nraw) {
        UChar c = raw[i];
        if (c == 0x0a && ((i == 0 && crp) || (i > 0 && raw[i - 1] == 0x0d))) continue;   /* second half of CR LF */
        ref[nref++] = (c == 0x0d) ? 0x0a : c;
    }
    V_ASSERT(rc == CIF_OK || rc == CIF_EOF, "get_more_chars returns OK or EOF");
    V_ASSERT(sc.buffer_limit <= sc.buffer_size && sc.text_start >= sc.buffer && sc.text_start <= sc.next_char
             && sc.next_char <= sc.buffer + sc.buffer_limit, "scanner pointers stay inside the buffer");
    V_ASSERT((unsigned) (sc.tvalue_start - sc.text_start) == tv - ts, "token-relative position survives compaction / expansion");
    V_ASSERT((unsigned) (sc.next_char - sc.text_start) == nold, "scan position still follows the previously buffered text");
    V_ASSERT((unsigned) (sc.buffer + sc.buffer_limit - sc.text_start) == nold + nref, "buffer grows by exactly the normalised units read");
    for (k = 0; k < BSIZE; k++) if (k < nold) V_ASSERT(sc.text_start[k] == old[k], "previously buffered text is preserved");
    for (k = 0; k < MAXRAW; k++) if (k < nref) V_ASSERT(sc.text_start[nold + k] == ref[k], "new text is the EOL-normalised chunk (no stale, lost or duplicated unit)");
    V_ASSERT((rc == CIF_OK) == (nref > 0), "OK exactly when a new character is readable at next_char");
    if (rc == CIF_EOF) V_ASSERT(sc.at_eof, "EOF raises the at_eof flag");
    if (nraw > 0) V_ASSERT((sc.cr_pending != 0) == (raw[(nraw - 1) % MAXRAW] == 0x0d), "cr_pending records a CR at the end of the data read");
    if (sc.buffer_size > BSIZE) V_COVER("buffer expansion");
    if (sc.text_start == sc.buffer && ts > 0 && sc.buffer_size == BSIZE && nold > 0) V_COVER("compaction");
    if (reads == 2 && nref > 0) V_COVER("second read after a lone LF");
    if (rc == CIF_EOF) V_COVER("EOF");
    V_COVER("end");
    free(sc.buffer);
}
