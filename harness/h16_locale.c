/* C16 (process-wide state): cif_value_init_numb / cif_value_autoinit_numb leave the numeric locale as they found it, on
 * every path, for an arbitrary entry locale; and never change the floating-point rounding mode.
 * setlocale = C-standard model (a NULL request queries; a non-NULL request switches and returns the name of the locale
 * NOW in force; the returned string may be overwritten by the next call).  The digit conversion and text formatting
 * kernels (to_digits, format_text_*) are replaced by outcome stubs (success / failure symbolic): not the subject here. */
#include "vnd.h"
#include <stdlib.h>
#include <string.h>
#include <locale.h>
#include <unicode/ustring.h>
#include "cif.h"
#include "internal/ciftypes.h"
#include "internal/utils.h"
static char cur_locale[12], ret_buf[12]; static int set_calls, fesetround_calls;
static void cpy(char *d, const char *s) { int i; for (i = 0; i < 11 && s[i]; i++) d[i] = s[i]; d[i] = 0; }
char *setlocale(int category, const char *locale) {
    if (category != LC_NUMERIC && category != LC_ALL) return NULL;
    if (locale != NULL) { char tmp[12]; if (locale[0] == 0) return NULL; cpy(tmp, locale); cpy(cur_locale, tmp); set_calls++; }   /* tmp: the request may alias ret_buf */
    cpy(ret_buf, cur_locale);            /* the storage returned is reused by every call */
    return ret_buf;
}
int fesetround(int mode) { fesetround_calls++; return 0; }
int fegetround(void) { return 0; }
double log10(double x) { return 0.17; }     /* only the magnitude class of the value depends on it; not the subject here */
double floor(double x) { return 0.0; }
double frexp(double x, int *e) { *e = 2; return 0.5; }
double ldexp(double x, int e) { return 4503599627370496.0; }   /* 2^52: the mantissa image of 0.5 */
/* outcome stubs for the numeric kernels (bodies removed from value.c) */
char *__CPROVER_file_local_value_c_to_digits(double d, int scale) { char *r; if (vnd_bool()) return NULL; r = (char *) malloc(2); V_MALLOC_OK(r); r[0] = '1'; r[1] = 0; return r; }
static int fmt(UChar **result) { UChar *t; if (vnd_bool()) return CIF_MEMORY_ERROR; t = (UChar *) malloc(2 * sizeof(UChar)); V_MALLOC_OK(t); t[0] = '1'; t[1] = 0; *result = t; return CIF_OK; }
int __CPROVER_file_local_value_c_format_text_decimal(double sign_num, char *digit_buf, char *su_buf, size_t su_size, int scale, UChar **result) { return fmt(result); }
int __CPROVER_file_local_value_c_format_text_sci(double sign_num, char *digit_buf, char *su_buf, size_t su_size, int scale, UChar **result) { return fmt(result); }
void harness(void) {
    cif_value_tp *v = NULL; int rc, which = WHICH; char entry[12];
    cpy(cur_locale, vnd_bool() ? "de_DE" : "C"); cpy(entry, cur_locale);
    rc = cif_value_create(CIF_UNK_KIND, &v); V_ASSUME(rc == CIF_OK);
    if (which) rc = cif_value_init_numb(v, 1.5, vnd_bool() ? 0.25 : 0.0, 1, 5);
    else rc = cif_value_autoinit_numb(v, 2.0, 0.0, 19);
    V_ASSERT(strcmp(cur_locale, entry) == 0, "the numeric locale at return equals the one at entry");
    V_ASSERT(fesetround_calls == 0, "the floating-point rounding mode is never changed");
    if (set_calls > 0) V_COVER_OPT("locale was switched during the call");
    if (rc != CIF_OK) V_COVER_OPT("failure path");
    cif_value_free(v);
    V_COVER("end");
}
