/* C15 / C12 (grammar) / C01 (productions): the real productions parse_container, parse_item, parse_loop,
 * parse_loop_header and parse_loop_packets driven by a TOKEN SCRIPT through a contract stub of next_token, with parse_value
 * replaced by its contract (consumes the current value token, yields a value), the storage API replaced by a recording store
 * and real value / packet objects.  The token script SCRIPT is concrete per instance (the driver enumerates scripts);
 * The handler program is either symbolic (item-only scripts) or a single deviation from "all continue" at one callback
 * site (DEV_KIND, DEV_POS, DEV_ANS in CONTINUE / SKIP_CURRENT / SKIP_SIBLINGS / END / 7), all sites x answers enumerated by
 * the driver; entry skip depth, syntax-only mode and duplicate reports of the store are concrete per instance as well.
 *
 * Script alphabet: N data name, V Q T whitespace-delimited / quoted / text value, L loop_, H save-frame header, S save-frame
 * terminator, B block header, K key, ( ) { } delimiters; END is implicit after the last token.
 *
 * Assertions (property C15): callbacks are delivered in document order; with all handlers continuing every entity of the
 * script is reported exactly once and stored (item -> set_value(name), loop -> create_loop + one add_packet per packet);
 * after SKIP_CURRENT / SKIP_SIBLINGS at a start callback no handler callback, syntax callback or store operation occurs for
 * the bypassed entities (descendants; for SKIP_SIBLINGS also the later siblings); entities outside every bypassed region
 * are still reported and stored; END stops everything and yields a navigation code, a positive answer is returned
 * unchanged; the skip depth is restored (entry d > 0 => exit d, never negative); syntax-only mode makes the same callbacks.
 * Property C12 (EXPECT_ERRS given): the error callback sees exactly the expected codes, in order.
 * MAY (not asserted): end callbacks of an element that answered SKIP_*, and of the parent of one that answered SKIP_SIBLINGS. */
#include "vnd.h"
#include <stdlib.h>
#include <string.h>
#include <unicode/ustring.h>
#include <sqlite3.h>
#include "cif.h"
#include "internal/ciftypes.h"
#include "internal/utils.h"
int __CPROVER_file_local_parser_c_parse_container(struct scanner_s *scanner, cif_container_tp *container, int is_block);
static const char script[] = SCRIPT;
#define NTOK ((int) sizeof(script) - 1)
#define NPOS (NTOK + 2)             /* positions -1 .. NTOK (END) shifted by one */
#define W 3
enum { E_CSTART, E_CEND, E_DNAME, E_KW, E_ITEM, E_LSTART, E_LEND, E_PSTART, E_PEND, S_SET, S_CLOOP, S_ADDP, S_CFRAME, NKIND };
#define POSCODE 7
static UChar buf[W * (sizeof(script)) + W];
static int pos = -1;                                  /* index of the token most recently delivered (NTOK = END) */
static struct scanner_s *the_scanner; static int syntax_only;
static int ANS[NKIND][NPOS]; static unsigned char cnt[NKIND][NPOS]; static int seqno[NKIND][NPOS]; static int nseq;
static int skip_violation, order_violation, after_stop_violation, stopped, stop_rc;
static int nerr, codes[6];
/* quiet zones opened by SKIP answers */
#define MAXZ 8
static int zn, z_lo[MAXZ], z_hi[MAXZ], z_seq[MAXZ], z_endkind[MAXZ], z_endpos[MAXZ];
static int isval(char c) { return c == 'V' || c == 'Q' || c == 'T'; }
static char tok(int i) { return (i >= 0 && i < NTOK) ? script[i] : 'E'; }
/* ---- script geometry (reference side) ---- */
static int frame_end(int h) { int i, d = 0; for (i = h + 1; i < NTOK; i++) { if (script[i] == 'H') d++; else if (script[i] == 'S') { if (d == 0) return i; d--; } else if (script[i] == 'B') return i; } return NTOK; }
static int cont_end_of(int p) {          /* end index of the container that the token at p lies in (top-level block: B or END) */
    int i, open = -1, d = 0;
    for (i = p; i >= 0; i--) { if (script[i] == 'S' && i != p) d++; else if (script[i] == 'H') { if (d == 0) { open = i; break; } d--; } }
    if (open >= 0 && frame_end(open) >= p) return frame_end(open);
    for (i = (p < 0 ? 0 : p); i < NTOK; i++) if (script[i] == 'B') return i;
    return NTOK;
}
static int parent_end(int h) {          /* end index of the container that encloses the frame header at h */
    int i, d = 0;
    for (i = h - 1; i >= 0; i--) { if (script[i] == 'S') d++; else if (script[i] == 'H') { if (d == 0) return frame_end(i); d--; } }
    for (i = h; i < NTOK; i++) if (script[i] == 'B') return i;
    return NTOK;
}
static int loop_body_start(int l) { int i = l + 1; while (i < NTOK && script[i] == 'N') i++; return i; }
static int loop_ncols(int l) { return loop_body_start(l) - (l + 1); }
static int loop_term(int b) { int i = b; while (i < NTOK && (isval(script[i]) || script[i] == ')' || script[i] == '}')) i++; return i; }
static int loop_of(int p) {          /* the loop_ keyword governing value token p, or -1: values, preceded by >= 1 names, preceded by loop_ */
    int i = p, n = 0;
    if (p < 0 || p >= NTOK || !isval(script[p])) { if (p >= 0 && p < NTOK && script[p] == 'N') { i = p; while (i >= 0 && script[i] == 'N') i--; return (i >= 0 && script[i] == 'L') ? i : -1; } return -1; }
    while (i >= 0 && (isval(script[i]) || script[i] == ')' || script[i] == '}')) i--;
    while (i >= 0 && script[i] == 'N') { i--; n++; }
    return (n > 0 && i >= 0 && script[i] == 'L') ? i : -1;
}
/* ---- event recording with the monitors ---- */
static int in_zone(int kind, int p) {
    int k; for (k = 0; k < MAXZ; k++) if (k < zn && p >= z_lo[k] && p < z_hi[k] && !(kind == z_endkind[k] && p == z_endpos[k])) return 1; return 0; }
static void open_zone(int lo, int hi, int endkind, int endpos) { if (zn < MAXZ) { z_lo[zn] = lo; z_hi[zn] = hi; z_seq[zn] = nseq; z_endkind[zn] = endkind; z_endpos[zn] = endpos; zn++; } }
static int record(int kind) {
    int p = pos + 1, a;
    if (p < 0 || p >= NPOS) { order_violation = 1; return CIF_TRAVERSE_END; }
    if (cnt[kind][p] < 3) cnt[kind][p]++;
    seqno[kind][p] = ++nseq;
    if (stopped) after_stop_violation = 1;
    if (the_scanner->skip_depth > 0) skip_violation = 1;                      /* a callback / store operation while the parser itself is skipping */
    if (in_zone(kind, pos)) skip_violation = 1;                               /* ... or inside a region a handler asked to bypass */
    if (kind > E_PEND || kind == E_DNAME || kind == E_KW) return 0;           /* syntax callbacks and store operations have no answer */
    a = ANS[kind][p];
    if (a == CIF_TRAVERSE_END) { stopped = 1; stop_rc = CIF_OK; }
    if (a > 0) { stopped = 1; stop_rc = a; }
    return a;
}
/* ---- handler callbacks: answer from the symbolic program and open quiet zones ---- */
static int h_cont_start(cif_container_tp *c, void *x) {
    int a = record(E_CSTART), h = pos;            /* pos = index of the H token, or -1 for the top-level block */
    int end = (h < 0) ? cont_end_of(-1) : frame_end(h);
    if (a == CIF_TRAVERSE_SKIP_CURRENT) open_zone(h + 1 < 0 ? 0 : h + 1, end, E_CEND, end);
    if (a == CIF_TRAVERSE_SKIP_SIBLINGS) { open_zone(h + 1 < 0 ? 0 : h + 1, (h < 0) ? end : parent_end(h), E_CEND, end); }
    return a;
}
static int h_cont_end(cif_container_tp *c, void *x) { int a = record(E_CEND); if (a == CIF_TRAVERSE_SKIP_SIBLINGS && pos < NTOK && script[pos] == 'S') open_zone(pos + 1, cont_end_of(pos + 1), E_CEND, cont_end_of(pos + 1)); return a; }
static int h_item(UChar *name, cif_value_tp *v, void *x) {
    int a = record(E_ITEM), l = loop_of(pos);
    if (a == CIF_TRAVERSE_SKIP_SIBLINGS) {
        if (l >= 0) { int b = loop_body_start(l), nc = loop_ncols(l), pk = (pos - b) / nc; open_zone(pos + 1, b + (pk + 1) * nc, -1, -1); }   /* later items of this packet */
        else open_zone(pos + 1, cont_end_of(pos), E_CEND, cont_end_of(pos));                                                                      /* later children of this container */
    }
    return a;
}
static int h_loop_start(cif_loop_tp *lp, void *x) {
    int a = record(E_LSTART), b = pos, t = loop_term(b);
    if (a == CIF_TRAVERSE_SKIP_CURRENT) open_zone(b, t, E_LEND, t);
    if (a == CIF_TRAVERSE_SKIP_SIBLINGS) open_zone(b, cont_end_of(b), E_CEND, cont_end_of(b));
    return a;
}
static int h_loop_end(cif_loop_tp *lp, void *x) { int a = record(E_LEND); if (a == CIF_TRAVERSE_SKIP_SIBLINGS) open_zone(pos, cont_end_of(pos), E_CEND, cont_end_of(pos)); return a; }
static int h_packet_start(cif_packet_tp *p, void *x) {
    int a = record(E_PSTART), l = loop_of(pos), b = loop_body_start(l), nc = loop_ncols(l), pk = (pos - b) / nc, pend = b + (pk + 1) * nc;
    if (a == CIF_TRAVERSE_SKIP_CURRENT) open_zone(pos, pend, E_PEND, pend - 1);
    if (a == CIF_TRAVERSE_SKIP_SIBLINGS) open_zone(pos, loop_term(b), E_LEND, loop_term(b));
    return a;
}
static int h_packet_end(cif_packet_tp *p, void *x) { int a = record(E_PEND); if (a == CIF_TRAVERSE_SKIP_SIBLINGS) { int l = loop_of(pos); open_zone(pos + 1, loop_term(loop_body_start(l)), E_LEND, loop_term(loop_body_start(l))); } return a; }
static void s_dataname(size_t line, size_t col, const UChar *t, size_t len, void *x) { (void) record(E_DNAME); }
static void s_keyword(size_t line, size_t col, const UChar *t, size_t len, void *x) { (void) record(E_KW); }
static int errcb(int code, size_t line, size_t col, const UChar *t, size_t len, void *x) { if (nerr < 6) codes[nerr] = code; nerr++; return 0; }
/* ---- next_token contract stub over the script ---- */
int __CPROVER_file_local_parser_c_next_token(struct scanner_s *s) {
    char c;
    if (s->text_start < s->next_char) return CIF_OK;                 /* a ready token is returned again */
    pos = (int) ((s->text_start - s->buffer) / W);
    if (pos >= NTOK) { pos = NTOK; s->ttype = END; s->tvalue_start = s->text_start; s->tvalue_length = 0; return CIF_OK; }
    c = script[pos];
    s->tvalue_start = s->text_start; s->tvalue_length = (c == 'N') ? 2 : 1; s->next_char = s->text_start + W;
    s->ttype = (c == 'N') ? NAME : (c == 'V') ? VALUE : (c == 'Q') ? QVALUE : (c == 'T') ? TVALUE : (c == 'L') ? LOOPKW : (c == 'H') ? FRAME_HEAD
             : (c == 'S') ? FRAME_TERM : (c == 'B') ? BLOCK_HEAD : (c == 'K') ? KEY : (c == '(') ? OLIST : (c == ')') ? CLIST : (c == '{') ? OTABLE : CTABLE;
    if (c == 'S' || c == 'L') s->tvalue_length = 0;
    return CIF_OK;
}
/* ---- parse_value contract: entered on a value token; consumes it; yields a value object ---- */
static int pv_bad;
int __CPROVER_file_local_parser_c_parse_value(struct scanner_s *s, cif_value_tp **valuep) {
    int rc = __CPROVER_file_local_parser_c_next_token(s);
    if (rc != CIF_OK) return rc;
    if (!(s->ttype == VALUE || s->ttype == QVALUE || s->ttype == TVALUE || s->ttype == OLIST || s->ttype == OTABLE)) { pv_bad = 1; return CIF_INTERNAL_ERROR; }
    if (*valuep == NULL) { rc = cif_value_create(CIF_NA_KIND, valuep); if (rc != CIF_OK) return rc; } else { rc = cif_value_init(*valuep, CIF_NA_KIND); if (rc != CIF_OK) return rc; }
    s->text_start = s->next_char; s->tvalue_start = s->next_char; s->tvalue_length = 0;      /* CONSUME_TOKEN */
    return CIF_OK;
}
/* ---- recording store ---- */
static int dup_at[NPOS]; static int live_handles;
int cif_container_get_item_loop(cif_container_tp *c, const UChar *name, cif_loop_tp **loop) { return dup_at[pos + 1] ? CIF_OK : CIF_NOSUCH_ITEM; }
int cif_container_set_value(cif_container_tp *c, const UChar *name, cif_value_tp *v) { (void) record(S_SET); if (name == NULL || name[0] != '_' || name[1] != (UChar) ('a' + (pos - 1) % 20)) order_violation = 1; return CIF_OK; }
static int lc2(UChar u) { return (u >= 'A' && u <= 'Z') ? u + 32 : u; }
int cif_container_create_loop(cif_container_tp *c, const UChar *cat, UChar *names[], cif_loop_tp **loop) {
    cif_loop_tp *l; int i, j;
    /* contract of the real function: equivalent names in the list are refused with CIF_DUP_ITEMNAME and nothing is created */
    for (i = 0; i < NTOK && names[i] != NULL; i++) for (j = 0; j < i; j++) if (lc2(names[i][1]) == lc2(names[j][1])) return CIF_DUP_ITEMNAME;
    (void) record(S_CLOOP);
    l = (cif_loop_tp *) malloc(sizeof *l); V_MALLOC_OK(l); l->container = c; l->loop_num = 1; l->category = 0; l->names = 0; live_handles++; *loop = l; return CIF_OK; }
void cif_loop_free(cif_loop_tp *l) { live_handles--; free(l); }
static int packet_bad, packets_added_in[NPOS];          /* packets stored so far, per loop (indexed by the position of its loop_ token) */
int cif_loop_add_packet(cif_loop_tp *l, cif_packet_tp *p) {
    /* the packet handed to the store holds, per column, the value parsed for it (the parse_value stub yields n/a values) or
     * the unknown value where the document supplied none (documented recovery for a partial packet) */
    int lk = loop_of(pos < NTOK && isval(script[pos]) ? pos : pos - 1), b, t, nc, col = 0; struct entry_s *e;
    (void) record(S_ADDP);
    if (lk < 0 || p == NULL) { packet_bad = 1; return CIF_OK; }
    b = loop_body_start(lk); t = loop_term(b); nc = loop_ncols(lk);
    for (e = p->map.head; e != NULL && col < 4; e = (struct entry_s *) e->hh.next, col++) {
        int have = (b + packets_added_in[lk] * nc + col) < t;
        if (e->as_value.kind != (have ? CIF_NA_KIND : CIF_UNK_KIND)) packet_bad = 1;
    }
    if (col != nc) packet_bad = 1;
    packets_added_in[lk]++;
    return CIF_OK;
}
int cif_container_prune(cif_container_tp *c) { return CIF_OK; }
static cif_container_tp *mkframe(cif_container_tp *parent) { cif_container_tp *f = (cif_container_tp *) malloc(sizeof *f); V_MALLOC_OK(f); f->cif = 0; f->id = 9; f->code = 0; f->code_orig = 0; f->parent_id = 1; live_handles++; return f; }
int cif_container_create_frame(cif_container_tp *c, const UChar *code, cif_frame_tp **frame) { (void) record(S_CFRAME); *frame = mkframe(c); return CIF_OK; }
int cif_container_create_frame_internal(cif_container_tp *c, const UChar *code, int lenient, cif_frame_tp **frame) { *frame = mkframe(c); return CIF_OK; }
int cif_container_get_frame(cif_container_tp *c, const UChar *code, cif_frame_tp **frame) { *frame = mkframe(c); return CIF_OK; }
void cif_container_free(cif_container_tp *c) { if (c) { live_handles--; free(c); } }

/* ---- expectations from the script (reference side): every entity outside quiet zones / before a stop is reported once ---- */
static int req_bad;
static void require(int kind, int p, int when_seq_known) {
    /* the event at (kind, p) is required unless it lies in a quiet zone opened earlier, or the walk stopped before it */
    int k, excused = 0;
    for (k = 0; k < MAXZ; k++) if (k < zn && p >= z_lo[k] && p < z_hi[k]) excused = 1;
    if (cnt[kind][p + 1] > 1) req_bad = 1;
    if (!excused && !stopped && cnt[kind][p + 1] != 1) req_bad = 1;
    (void) when_seq_known;
}
void harness(void) {
    struct scanner_s sc; cif_handler_tp H = { 0, 0, h_cont_start, h_cont_end, h_cont_start, h_cont_end, h_loop_start, h_loop_end, h_packet_start, h_packet_end, h_item };
    cif_container_tp top; int rc, i, k, d0, all_continue = 1;
    for (i = 0; i < NTOK; i++) { buf[W * i] = (script[i] == 'N') ? '_' : 'v'; buf[W * i + 1] = (UChar) ('a' + i % 20); buf[W * i + 2] = ' '; }
#ifdef SAME_AT          /* the name token at SAME_AT repeats the spelling of the one at SAME_AS, in the other letter case (a duplicate inside one loop header) */
#ifdef SAME_REV         /* ... the EARLIER one in upper case */
    buf[W * SAME_AS + 1] = (UChar) ('A' + SAME_AS % 20); buf[W * SAME_AT + 1] = (UChar) ('a' + SAME_AS % 20);
#else
    buf[W * SAME_AT + 1] = (UChar) ('A' + SAME_AS % 20);
#endif
#endif
    for (k = 0; k < NKIND; k++) for (i = 0; i < NPOS; i++) {
        int a = 0;
#ifdef DEV_KIND
        /* single-deviation handler program: every callback continues except the one at site (DEV_KIND, DEV_POS), which
         * answers DEV_ANS.  Sites and answers are enumerated by the driver: with a fully symbolic program the packet /
         * name / value heap becomes symbolic and symex does not finish (measured). */
        if (k == DEV_KIND && i == DEV_POS + 1) a = DEV_ANS;
#else
        if (k <= E_PEND && k != E_DNAME && k != E_KW) { a = vnd_int(); V_ASSUME(a == CIF_TRAVERSE_CONTINUE || a == CIF_TRAVERSE_SKIP_CURRENT || a == CIF_TRAVERSE_SKIP_SIBLINGS || a == CIF_TRAVERSE_END || a == POSCODE); }
#endif
        ANS[k][i] = a; cnt[k][i] = 0; seqno[k][i] = 0;
    }
#ifdef EXPECT_ERRS
    for (k = 0; k < NKIND; k++) for (i = 0; i < NPOS; i++) V_ASSUME(ANS[k][i] == CIF_TRAVERSE_CONTINUE);        /* defect scripts: handlers continue */
#endif
    for (i = 0; i < NPOS; i++) dup_at[i] = 0;
#ifdef DUP_AT
    dup_at[DUP_AT + 1] = 1;                                   /* the store reports the name token at DUP_AT as already present */
#endif
    memset(&sc, 0, sizeof sc);
    sc.buffer = buf; sc.buffer_size = sizeof buf / sizeof buf[0]; sc.buffer_limit = W * NTOK; sc.next_char = buf; sc.text_start = buf; sc.tvalue_start = buf; sc.tvalue_length = 0;
    sc.ttype = BLOCK_HEAD; sc.line = 1; sc.column = 0; sc.at_eof = 1; sc.cif_version = 2; sc.line_unfolding = 1; sc.prefix_removing = 1; sc.max_frame_depth = MAXFRAMEDEPTH;
    sc.handler = &H; sc.error_callback = errcb; sc.whitespace_callback = 0; sc.keyword_callback = s_keyword; sc.dataname_callback = s_dataname; sc.user_data = 0;
    d0 = ENTRY_SKIP; sc.skip_depth = d0; the_scanner = &sc;
#ifdef SYNTAX_ONLY
    syntax_only = SYNTAX_ONLY;
#else
    syntax_only = vnd_bool();
#endif
    top.cif = 0; top.id = 1; top.code = 0; top.code_orig = 0; top.parent_id = -1;
    rc = __CPROVER_file_local_parser_c_parse_container(&sc, syntax_only ? NULL : &top, 1);
    /* ---- generic (any script, any program) ---- */
    V_ASSERT(!pv_bad, "parse_value is entered only on a value token");
    V_ASSERT(rc != CIF_TRAVERSE_SKIP_CURRENT && rc != CIF_TRAVERSE_SKIP_SIBLINGS, "a skip request is acted on inside the production and does not escape as its result (parse_cif would take it for a request to stop)");
    V_ASSERT(!skip_violation, "no handler callback, syntax callback or store operation is made for a bypassed entity");
    V_ASSERT(!after_stop_violation, "END or a positive handler result stops all further callbacks and store operations");
    V_ASSERT(!order_violation, "stored items carry the name that preceded their value");
#if !defined(DUP_AT) && !defined(SAME_AT)
    V_ASSERT(!packet_bad, "each stored packet holds the values parsed for it, and the unknown value for columns the document left out");
#endif
    V_ASSERT(sc.skip_depth >= 0, "the skip depth never goes negative");
    if (d0 > 0) { V_ASSERT(sc.skip_depth == d0 && nseq == 0 && rc == CIF_OK, "a production entered while skipping makes no callback, stores nothing and restores the skip depth"); V_COVER_OPT("entered skipping"); }
    else V_ASSERT(sc.skip_depth <= 1, "on exit at most the 'skip my later siblings' mark remains");
    V_ASSERT(live_handles == 0, "every frame / loop handle obtained is released exactly once");
    if (stopped && stop_rc > 0) V_ASSERT(rc == stop_rc, "a positive handler result is returned unchanged");
    if (stopped && stop_rc == 0) V_ASSERT(rc <= 0, "END yields a navigation code (mapped to CIF_OK by parse_cif), not an error");
    /* ---- completeness: whatever lies outside the bypassed regions is reported once and stored ---- */
    if (d0 == 0) {
#ifndef EXPECT_ERRS
        V_ASSERT(nerr == 0, "a well-formed token sequence triggers no error callback");
        require(E_CSTART, -1, 0);
        for (i = 0; i < NTOK; i++) {
            char c = script[i];
            if (c == 'N' && loop_of(i) < 0) { require(E_DNAME, i, 0); if (isval(tok(i + 1))) { require(E_ITEM, i + 1, 0); } }
            if (c == 'L') { int b = loop_body_start(i), t = loop_term(b), nc = loop_ncols(i), j; require(E_KW, i, 0); for (j = i + 1; j < b; j++) require(E_DNAME, j, 0);
                require(E_LSTART, b, 0);
                for (j = b; j + nc <= t; j += nc) { int q; require(E_PSTART, j, 0); for (q = 0; q < nc; q++) require(E_ITEM, j + q, 0); } }
            if (c == 'H') require(E_CSTART, i, 0);
        }
        V_ASSERT(!req_bad, "every entity outside the bypassed regions is reported exactly once, in document order");
        for (k = 0; k <= E_PEND; k++) for (i = 0; i < NPOS; i++) if (cnt[k][i] && ANS[k][i] != CIF_TRAVERSE_CONTINUE) all_continue = 0;
        if (all_continue) {
            int items = 0, packets = 0, loops = 0, frames = 0;
            for (i = 0; i < NTOK; i++) { char c = script[i]; if (c == 'N' && loop_of(i) < 0 && isval(tok(i + 1))) items++; if (c == 'H') frames++;
                if (c == 'L') { int b = loop_body_start(i); loops++; packets += (loop_term(b) - b) / loop_ncols(i); } }
            if (!syntax_only) {
                int n_set = 0, n_cl = 0, n_ap = 0, n_cf = 0;
                for (i = 0; i < NPOS; i++) { n_set += cnt[S_SET][i]; n_cl += cnt[S_CLOOP][i]; n_ap += cnt[S_ADDP][i]; n_cf += cnt[S_CFRAME][i]; }
                V_ASSERT(n_set == items && n_cl == loops && n_ap == packets && n_cf == frames, "with every handler continuing, exactly the reported items, loops, packets and frames are stored");
                V_ASSERT(rc == CIF_OK && sc.skip_depth == 0, "an unfiltered parse of a well-formed sequence succeeds");
                V_COVER_OPT("all continue, storing");
            } else {
                for (i = 0; i < NPOS; i++) V_ASSERT(cnt[S_SET][i] + cnt[S_CLOOP][i] + cnt[S_ADDP][i] + cnt[S_CFRAME][i] == 0, "syntax-only mode stores nothing");
                V_COVER_OPT("all continue, syntax only");
            }
        }
        if (zn > 0) V_COVER_OPT("a handler asked to skip");
#else
        { static const int expect[] = { EXPECT_ERRS, 0 }; int ne = 0; while (expect[ne]) ne++;
          V_ASSERT(nerr == ne, "exactly the defects present are reported");
          for (i = 0; i < 6; i++) if (i < ne && i < nerr) V_ASSERT(codes[i] == expect[i], "each grammatical defect is reported with its documented code, in order");
          V_ASSERT(rc == CIF_OK, "with every error accepted the production recovers");
#ifdef EXPECT_SET
          if (!syntax_only) { int n_set = 0; for (i = 0; i < NPOS; i++) n_set += cnt[S_SET][i]; V_ASSERT(n_set == EXPECT_SET, "the documented recovery stores exactly the expected items"); }
#endif
#ifdef EXPECT_ADDP
          if (!syntax_only) { int n_ap = 0; for (i = 0; i < NPOS; i++) n_ap += cnt[S_ADDP][i]; V_ASSERT(n_ap == EXPECT_ADDP, "the documented recovery stores exactly the expected packets"); }
#endif
          V_COVER("defect script"); }
#endif
    }
    V_COVER("end");
}
