/* C02 / C13: what the writer emits for a character value reads back as exactly that value.
 * Real write_item -> write_char -> cif_analyze_string + write_unquoted / write_quoted / write_triple_quoted / write_text
 * (+ fold_line) / write_literal / write_uliteral / write_newline (ciffile.c, utils.c) with the in-memory u_fprintf sink.
 * The value text has KLEN symbolic code units (concrete length per instance, contents over the characters CIF 2.0 / 1.1
 * allows in a value, no CR), symbolic quoted flag and symbolic start column; CIF_LINE_LENGTH is shrunk by hook to WL so
 * that wrapping, folding and prefixing decisions are inside the bound.  The emitted text is read back with the reference
 * tokenizer (shown equivalent to the real scanner in C01) and a reference decoder of the text-field prefix / line-folding
 * protocol, in the SAME query.  WVERSION 2 = CIF 2.0 output, 1 = CIF 1.1 output (may refuse instead, C13). */
#include "vnd.h"
#include "ciffile.c"
#include "../oracles/ref_tokenizer.h"
#ifndef KLEN
#define KLEN 3
#endif
#ifndef WVERSION
#define WVERSION 2
#endif
extern UChar vout[]; extern int vout_len, sink_overflow, sink_badfmt;
/* reference decoder for a text field body (between the opening ';' and the closing newline-semicolon) */
static int ref_decode_text(const UChar *b, int n, UChar *out, int outmax) {
    int i = 0, o = 0, plen = 0, folded = 0, eol1 = 0, nbs = 0, lastbs = -1, k, nonws = 0;
    while (eol1 < n && b[eol1] != 0x0a) eol1++;
    if (n > 0 && b[0] != ';') {
        for (k = 0; k < eol1; k++) { if (b[k] == '\\') { nbs++; lastbs = k; nonws = 0; } else if (b[k] != ' ' && b[k] != '\t') nonws = 1; }
        if (nbs >= 1 && !nonws) {
            int pl = lastbs + 1 - nbs;                                    /* characters before the first of the trailing backslashes */
            if (nbs == 1) { plen = pl; folded = (pl == 0); if (pl > 0) folded = 0; if (pl == 0) folded = 1; }
            else if (nbs == 2 && pl > 0 && b[pl] == '\\') { plen = pl; folded = 1; }
            else { plen = 0; folded = 0; nbs = 0; }
            if (nbs) i = (eol1 < n) ? eol1 + 1 : n; else plen = 0;
        } else nbs = 0;
    }
    if (!nbs) { for (k = 0; k < n && o < outmax; k++) out[o++] = b[k]; return o; }
    while (i < n) {
        int ls = i, le, j, fold_here = 0;
        if (plen > 0) { int m = 1; for (k = 0; k < plen; k++) if (i + k >= n || b[i + k] != b[k]) m = 0; if (m) ls = i + plen; }
        le = ls; while (le < n && b[le] != 0x0a) le++;
        j = le; while (j > ls && (b[j - 1] == ' ' || b[j - 1] == '\t')) j--;
        if (folded && j > ls && b[j - 1] == '\\' && le < n) fold_here = 1;
        for (k = ls; k < (fold_here ? j - 1 : le) && o < outmax; k++) out[o++] = b[k];
        if (!fold_here && le < n && o < outmax) out[o++] = 0x0a;
        i = (le < n) ? le + 1 : n;
    }
    return o;
}
void harness(void) {
    write_context_t ctx; cif_value_tp v; UChar *s = (UChar *) malloc((KLEN + 1) * sizeof(UChar)); int i, rc, col0, quoted, maxline = 0, cur, clean = 1;
    V_MALLOC_OK(s);
    for (i = 0; i < KLEN; i++) { s[i] = vnd_u16(); V_ASSUME(ref_clean(s[i], WVERSION) && s[i] != 0); }
    s[KLEN] = 0;
    quoted = vnd_bool();
    v.kind = CIF_CHAR_KIND; v.as_char.text = s; v.as_char.quoted = quoted ? CIF_QUOTED : CIF_NOT_QUOTED;
    col0 = vnd_range(0, CIF_LINE_LENGTH);
    ctx.file = 0; ctx.write_item_names = 0; ctx.separate_values = 1; ctx.depth = 1; ctx.version = (WVERSION == 1) ? 1 : 0; ctx.last_column = col0;
    vout_len = 0;
    rc = write_item(NULL, &v, &ctx);
    V_ASSERT(!sink_badfmt, "only the modelled u_fprintf conversions are used");
    V_ASSERT(!sink_overflow, "harness sink large enough");
#if WVERSION == 2
    V_ASSERT(rc == CIF_OK, "every string of CIF 2.0 characters (no CR) is written");
#else
    V_ASSERT(rc == CIF_OK || rc == CIF_DISALLOWED_VALUE || rc == CIF_DISALLOWED_CHAR, "CIF 1.1 output succeeds or refuses with the documented code");
    if (rc != CIF_OK) V_COVER_OPT("refused in CIF 1.1 mode");
#endif
    if (rc == CIF_OK) {
        struct reftok t; UChar dec[3 * KLEN + 8]; int dn, start;
        /* line lengths and the column bookkeeping */
        cur = col0;
        for (i = 0; i < vout_len; i++) { if (vout[i] == 0x0a) { if (cur > maxline) maxline = cur; cur = 0; } else cur++; }
        if (cur > maxline) maxline = cur;
        V_ASSERT(maxline <= CIF_LINE_LENGTH, "no output line exceeds the line-length limit");
        V_ASSERT(ctx.last_column == cur, "the writer's column bookkeeping matches what it wrote");
        V_ASSERT(vout_len > 0 && (col0 == 0 || vout[0] == ' ' || vout[0] == 0x0a), "a value is separated from what precedes it by whitespace");
        /* read back: exactly one value token, no error, nothing left over; the token after whitespace at column col0 */
        start = 0;
        t = ref_next_token(vout, vout_len, WVERSION, 1, CIF_LINE_LENGTH);
        /* the reference assumes it starts at column 0; a text field needs its ';' in column 1, which the newline the writer emits guarantees */
        V_ASSERT(!t.unspecified, "output uses only characters the reference tokenizer defines");
        V_ASSERT(t.nerr == 0, "the output is read back without error");
        V_ASSERT(t.consumed == vout_len, "the output is exactly one token");
        V_ASSERT(t.type == R_VALUE || t.type == R_QVALUE || t.type == R_TVALUE, "the output reads back as a value");
        if (t.type == R_TVALUE) dn = ref_decode_text(vout + t.vstart, t.vlen, dec, 3 * KLEN + 8);
        else { dn = 0; for (i = 0; i < t.vlen && dn < 3 * KLEN + 8; i++) dec[dn++] = vout[t.vstart + i]; }
        V_ASSERT(dn == KLEN, "the value read back has the original length");
        for (i = 0; i < KLEN; i++) if (i < dn) V_ASSERT(dec[i] == s[i], "the value read back has the original text");
        if (quoted) V_ASSERT(t.type != R_VALUE, "a quoted value is written in a quoted form");
        else if (t.type != R_VALUE) { /* an unquoted value may come back quoted only when it cannot be presented bare */ }
        if (t.type == R_VALUE) { V_ASSERT(!(KLEN == 1 && (s[0] == '?' || s[0] == '.')) || !quoted, "quoted ? and . are not written bare"); V_COVER_OPT("written bare"); }
        if (t.type == R_TVALUE) V_COVER_OPT("written as a text field");
        if (t.type == R_QVALUE) V_COVER_OPT("written quoted");
        (void) start; (void) clean;
    }
    free(s);
    V_COVER("end");
}
