/* C11 (stage 1): cif_parse selects the byte encoding and the provisional CIF version exactly as documented, for every
 * combination of leading bytes (Unicode signature / CIF 2.0 magic code / neither), prefer_cif2 (<0, 0, 1..19, >=20),
 * force_default_encoding and default_encoding_name.
 * Real cif_parse (ciffile.c).  Environment: fread delivers NBYTES symbolic bytes (count symbolic 0..NBYTES), the ICU
 * converter entry points are recording stubs, ucnv_detectUnicodeSignature is the documented signature table, and
 * cif_parse_internal (the parser proper) is a recorder.  Oracle: the decision table of the property text / cif.h. */
#include "vnd.h"
#include "ciffile.c"
#ifndef NBYTES
#define NBYTES 12
#endif
static unsigned char inbytes[NBYTES]; static size_t incount; static int read_calls;
size_t fread(void *ptr, size_t size, size_t nmemb, FILE *stream) { size_t i; read_calls++; if (read_calls > 1) return 0; for (i = 0; i < NBYTES; i++) if (i < incount) ((unsigned char *) ptr)[i] = inbytes[i]; return incount; }
int ferror(FILE *stream) { return 0; }
/* ---- ICU converter API: recording stubs ---- */
static const char *opened_name; static int open_calls, close_calls, callback_set; static const char *default_conv_name;
struct UConverter { int dummy; }; static struct UConverter the_converter;
UConverter *ucnv_open(const char *name, UErrorCode *err) { open_calls++; opened_name = name; return &the_converter; }
const char *ucnv_getName(const UConverter *c, UErrorCode *err) { if (opened_name == NULL) return default_conv_name; if (strcmp(opened_name, "UTF-8") == 0 || strcmp(opened_name, "UTF8") == 0) return "UTF-8"; return opened_name; }
void ucnv_close(UConverter *c) { close_calls++; }
void ucnv_setToUCallBack(UConverter *c, UConverterToUCallback cb, const void *ctx, UConverterToUCallback *oldcb, const void **oldctx, UErrorCode *err) { callback_set = (cb != NULL); }
static const char *sig_name(const unsigned char *b, size_t n, int *len) {
    if (n >= 3 && b[0] == 0xEF && b[1] == 0xBB && b[2] == 0xBF) { *len = 3; return "UTF-8"; }
    if (n >= 4 && b[0] == 0x00 && b[1] == 0x00 && b[2] == 0xFE && b[3] == 0xFF) { *len = 4; return "UTF-32BE"; }
    if (n >= 4 && b[0] == 0xFF && b[1] == 0xFE && b[2] == 0x00 && b[3] == 0x00) { *len = 4; return "UTF-32LE"; }
    if (n >= 2 && b[0] == 0xFE && b[1] == 0xFF) { *len = 2; return "UTF-16BE"; }
    if (n >= 2 && b[0] == 0xFF && b[1] == 0xFE) { *len = 2; return "UTF-16LE"; }
    if (n >= 3 && b[0] == 0x0E && b[1] == 0xFE && b[2] == 0xFF) { *len = 3; return "SCSU"; }
    if (n >= 3 && b[0] == 0xFB && b[1] == 0xEE && b[2] == 0x28) { *len = 3; return "BOCU-1"; }
    if (n >= 4 && b[0] == 0x2B && b[1] == 0x2F && b[2] == 0x76 && (b[3] == 0x38 || b[3] == 0x39 || b[3] == 0x2B || b[3] == 0x2F)) { *len = 4; return "UTF-7"; }
    if (n >= 3 && b[0] == 0xF7 && b[1] == 0x64 && b[2] == 0x4C) { *len = 3; return "UTF-1"; }
    if (n >= 4 && b[0] == 0xDD && b[1] == 0x73 && b[2] == 0x66 && b[3] == 0x73) { *len = 4; return "UTF-EBCDIC"; }
    *len = 0; return NULL;
}
const char *ucnv_detectUnicodeSignature(const char *source, int32_t sourceLength, int32_t *signatureLength, UErrorCode *err) {
    int len; const char *nm = sig_name((const unsigned char *) source, (size_t) sourceLength, &len); if (signatureLength) *signatureLength = len; return nm; }
/* ---- recorders for the rest of the library ---- */
static int created; int cif_create(cif_tp **cif) { created++; *cif = (cif_tp *) &created; return CIF_OK; }
static int internal_calls, rec_version, rec_not_utf8, rec_unfold, rec_prefix, rec_depth; static const char *rec_ws, *rec_eol; static void *rec_user; static cif_tp *rec_dest;
static cif_parse_error_callback_tp rec_errcb; static read_chars_f rec_read;
int cif_parse_internal(struct scanner_s *scanner, int not_utf8, const char *extra_ws, const char *extra_eol, cif_tp *dest) {
    internal_calls++; rec_version = scanner->cif_version; rec_not_utf8 = not_utf8; rec_unfold = scanner->line_unfolding; rec_prefix = scanner->prefix_removing;
    rec_depth = scanner->max_frame_depth; rec_ws = extra_ws; rec_eol = extra_eol; rec_user = scanner->user_data; rec_dest = dest; rec_errcb = scanner->error_callback; rec_read = scanner->read_func;
    return vnd_range(0, 3);
}
static int my_errcb(int code, size_t line, size_t col, const UChar *t, size_t len, void *d) { return code; }
static const unsigned char MAGIC2[10] = { 0x23, 0x5c, 0x23, 0x43, 0x49, 0x46, 0x5f, 0x32, 0x2e, 0x30 };
void harness(void) {
    struct cif_parse_opts_s o; cif_tp *cif = NULL; int rc, i, pref, has_sig, siglen, magic2, magic_any, exp_version; const char *exp_enc; const char *signame; static const char DEFNAME[] = "ISO-8859-1";
    for (i = 0; i < NBYTES; i++) inbytes[i] = vnd_u8();
    incount = (size_t) vnd_range(0, NBYTES);
    memset(&o, 0, sizeof o);
    pref = vnd_int(); V_ASSUME(pref >= -2 && pref <= 21); o.prefer_cif2 = pref;
    o.force_default_encoding = vnd_bool(); o.default_encoding_name = vnd_bool() ? DEFNAME : NULL;
    o.line_folding_modifier = vnd_range(-2, 3); o.text_prefixing_modifier = vnd_range(-2, 3); o.max_frame_depth = vnd_range(-1, 3);
    o.error_callback = vnd_bool() ? my_errcb : NULL; o.user_data = &o;
    default_conv_name = vnd_bool() ? "UTF-8" : "ISO-8859-15";
    rc = cif_parse((FILE *) &inbytes, &o, &cif);
    /* ---- oracle ---- */
    signame = sig_name(inbytes, incount, &siglen); has_sig = (signame != NULL);
    magic2 = (incount >= 10); for (i = 0; i < 10; i++) if (i < (int) incount && inbytes[i] != MAGIC2[i]) magic2 = 0;
    magic_any = (incount >= 10); for (i = 0; i < 7; i++) if (i < (int) incount && inbytes[i] != MAGIC2[i]) magic_any = 0;      /* "#\#CIF_" + 3 more bytes */
    if (o.force_default_encoding) {
        exp_enc = o.default_encoding_name; exp_version = (pref >= 20) ? 2 : ((pref < 0) ? 1 : ((pref > 0) ? -2 : 0));
    } else if (incount == 0) {
        exp_enc = NULL; exp_version = 99;                   /* empty input: empty CIF, the parser is not started */
    } else if (has_sig) { exp_enc = signame; exp_version = (pref >= 20) ? 2 : ((pref < 0) ? 1 : 0); }
    else if (pref >= 20) { exp_enc = "UTF-8"; exp_version = 2; }
    else if (pref >= 0 && magic2) { exp_enc = "UTF-8"; exp_version = 2; }
    else if (pref > 0 && !magic_any) { exp_enc = "UTF-8"; exp_version = 2; }
    else { exp_enc = NULL; exp_version = 1; }
    if (exp_version == 99) {
        V_ASSERT(rc == CIF_OK && internal_calls == 0, "an empty input yields an empty CIF without starting the parser");
        V_COVER("empty input");
    } else {
        V_ASSERT(internal_calls == 1 && open_calls == 1 && close_calls == 1, "one converter is opened and closed, the parser runs once");
        V_ASSERT((opened_name == NULL) == (exp_enc == NULL) && (exp_enc == NULL || strcmp(opened_name, exp_enc) == 0), "the byte encoding is chosen as documented (signature, else UTF-8 for CIF 2.0, else the named / system default; forced default overrides detection)");
        V_ASSERT(rec_version == exp_version, "the provisional CIF version handed to the parser follows prefer_cif2 and the leading magic code as documented");
        V_ASSERT((rec_not_utf8 != 0) == (strcmp(ucnv_getName(&the_converter, NULL), "UTF-8") != 0), "the parser is told whether the encoding is UTF-8");
        V_ASSERT(rec_unfold == ((o.line_folding_modifier < 1) ? o.line_folding_modifier : 1) && rec_prefix == ((o.text_prefixing_modifier < 1) ? o.text_prefixing_modifier : 1), "folding / prefixing modifiers are passed on, capped at 1");
        V_ASSERT(rec_depth == ((o.max_frame_depth < 1) ? o.max_frame_depth : 1), "max_frame_depth is passed on, capped at 1");
        V_ASSERT(rec_errcb == (o.error_callback ? o.error_callback : cif_parse_error_die), "the error callback defaults to the abort-on-error handler");
        V_ASSERT(rec_user == o.user_data && rec_dest == cif && callback_set, "user data, target CIF and the conversion-error callback are wired");
        if (has_sig && !o.force_default_encoding) V_COVER("signature path");
        if (exp_version == 2 && !has_sig && magic2) V_COVER("CIF 2.0 magic path");
        if (exp_version == -2) V_COVER("forced default, prefer CIF 2");
        V_COVER("parser started");
    }
}
