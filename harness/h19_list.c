/* C19 (lists), inductive form: ONE list operation from an arbitrary list state of a given shape.
 * State: a list of LSZ elements (LSZ, capacity C concrete per query instance - the driver enumerates (LSZ, C) including the
 * capacity boundaries; element texts symbolic).  Operation: any of {insert, set, take, drop, self-set, get} at any index
 * 0..LSZ+1 (symbolic; dispatched over concrete constants so that the list's pointer array is indexed concretely - a
 * symbolic index into it exhausted 12 GB).  Oracle: array model.  A list behaves as a sequence: insert shifts later
 * elements, set replaces in place, remove closes the gap, out of range gives CIF_INVALID_INDEX; elements are copied on
 * the way in, exposed by reference, removed members are handed to the caller (releasable exactly once).
 * Induction over operations covers every operation sequence whose intermediate sizes stay within the enumerated shapes. */
#include "vnd.h"
#include "value.c"
#ifndef LSZ
#define LSZ 2
#endif
#ifndef LCAP
#define LCAP 4
#endif
static cif_value_tp *mk_char(UChar tag) {
    cif_value_tp *v = NULL; UChar t[2]; int rc; t[0] = tag; t[1] = 0;
    rc = cif_value_create(CIF_UNK_KIND, &v); V_ASSUME(rc == CIF_OK);
    rc = cif_value_copy_char(v, t); V_ASSUME(rc == CIF_OK);
    return v;
}
static UChar tag_of(cif_value_tp *v) { return (v->kind == CIF_CHAR_KIND) ? v->as_char.text[0] : (UChar) 0; }
static UChar model[LSZ + 2]; static unsigned n;
static void check_final(cif_value_tp *list) {
    size_t cnt; unsigned k; int rc = cif_value_get_element_count(list, &cnt);
    V_ASSERT(rc == CIF_OK && cnt == n, "element count follows the operation");
    V_ASSERT(list->as_list.capacity >= list->as_list.size, "capacity covers size");
    for (k = 0; k < LSZ + 1; k++) if (k < n) { cif_value_tp *m = NULL; rc = cif_value_get_element_at(list, k, &m); V_ASSERT(rc == CIF_OK && m != NULL && m->kind == CIF_CHAR_KIND && tag_of(m) == model[k], "resulting sequence equals the array model"); }
    cif_value_free(list);
}
static void run_case(cif_value_tp *list, int what, size_t idx, UChar tag) {
    int rc; unsigned k;
    if (what == 0) {            /* insert a copy of a fresh element */
        cif_value_tp *e = mk_char(tag);
        rc = cif_value_insert_element_at(list, idx, e);
        if (idx > n) V_ASSERT(rc == CIF_INVALID_INDEX, "insert beyond the end is refused with CIF_INVALID_INDEX");
        else { V_ASSERT(rc == CIF_OK, "insert within range succeeds"); for (k = n; k > idx; k--) model[k] = model[k - 1]; model[idx] = tag; n++; }
        e->as_char.text[0] = (UChar) (tag ^ 1);     /* mutate then release the source: the list must hold its own copy */
        cif_value_free(e);
    } else if (what == 1) {     /* set (replace in place) */
        cif_value_tp *e = mk_char(tag), *before = NULL;
        if (idx < n) cif_value_get_element_at(list, idx, &before);
        rc = cif_value_set_element_at(list, idx, e);
        if (idx >= n) V_ASSERT(rc == CIF_INVALID_INDEX, "set out of range is refused with CIF_INVALID_INDEX");
        else { cif_value_tp *after = NULL; V_ASSERT(rc == CIF_OK, "set within range succeeds"); model[idx] = tag;
               cif_value_get_element_at(list, idx, &after); V_ASSERT(after == before, "set replaces the content of the member in place"); }
        cif_value_free(e);
    } else if (what == 2) {     /* remove, taking ownership */
        cif_value_tp *got = NULL;
        rc = cif_value_remove_element_at(list, idx, &got);
        if (idx >= n) V_ASSERT(rc == CIF_INVALID_INDEX && got == NULL, "remove out of range is refused with CIF_INVALID_INDEX");
        else { V_ASSERT(rc == CIF_OK && got != NULL && tag_of(got) == model[idx], "remove hands the addressed member to the caller");
               for (k = (unsigned) idx; k + 1 < n; k++) model[k] = model[k + 1]; n--; cif_value_free(got); }
    } else if (what == 3) {     /* remove and discard */
        rc = cif_value_remove_element_at(list, idx, NULL);
        if (idx >= n) V_ASSERT(rc == CIF_INVALID_INDEX, "remove out of range is refused");
        else { V_ASSERT(rc == CIF_OK, "remove succeeds"); for (k = (unsigned) idx; k + 1 < n; k++) model[k] = model[k + 1]; n--; }
    } else if (what == 4) {     /* aliasing case: a member passed back into its own slot */
        cif_value_tp *m = NULL;
        if (idx < n) { cif_value_get_element_at(list, idx, &m); rc = cif_value_set_element_at(list, idx, m);
                       V_ASSERT(rc == CIF_OK && tag_of(m) == model[idx], "setting a member to itself leaves it intact"); }
    } else {                    /* get */
        cif_value_tp *m = NULL;
        rc = cif_value_get_element_at(list, idx, &m);
        if (idx >= n) V_ASSERT(rc == CIF_INVALID_INDEX, "get out of range is refused with CIF_INVALID_INDEX");
        else V_ASSERT(rc == CIF_OK && tag_of(m) == model[idx], "get returns the addressed member");
    }
    check_final(list);
}
void harness(void) {
    cif_value_tp *list = NULL, *scalar = NULL; unsigned k; int rc, what, w, i; size_t idx, cnt; UChar tag;
    /* arbitrary valid list state of shape (LSZ, LCAP) */
    rc = cif_value_create(CIF_LIST_KIND, &list); V_ASSUME(rc == CIF_OK);
#if LCAP > 0
    list->as_list.elements = (cif_value_tp **) malloc(LCAP * sizeof(cif_value_tp *)); V_MALLOC_OK(list->as_list.elements);
#endif
    list->as_list.capacity = LCAP; n = 0;
    for (k = 0; k < LSZ; k++) { UChar t = vnd_u16(); V_ASSUME(t != 0); list->as_list.elements[k] = mk_char(t); model[n++] = t; }
    list->as_list.size = LSZ;
    /* operation and index are concrete per query instance (the driver enumerates all of them for each shape): merging
     * the alternatives inside one query makes the heap state symbolic and no back end finishes (measured) */
    what = OPK; idx = (size_t) OPIDX; tag = vnd_u16(); V_ASSUME(tag != 0); (void) w; (void) i;
    run_case(list, what, idx, tag);
    /* wrong-kind refusals */
    rc = cif_value_create(CIF_NA_KIND, &scalar); V_ASSUME(rc == CIF_OK);
    V_ASSERT(cif_value_insert_element_at(scalar, 0, NULL) == CIF_ARGUMENT_ERROR && cif_value_get_element_count(scalar, &cnt) == CIF_ARGUMENT_ERROR
             && cif_value_remove_element_at(scalar, 0, NULL) == CIF_ARGUMENT_ERROR && cif_value_set_element_at(scalar, 0, NULL) == CIF_ARGUMENT_ERROR
             && cif_value_get_element_at(scalar, 0, &list) == CIF_ARGUMENT_ERROR,
             "list operations on a non-list are refused with CIF_ARGUMENT_ERROR");
    V_COVER("end");
    cif_value_free(scalar);
}
