/* C10 (lexical half) / C16: cif_value_parse_numb accepts exactly CIF's numeric syntax, leaves the value untouched
 * on rejection, and on acceptance decomposes the text into sign / digits / scale / su as the grammar denotes.
 * Input: KLEN symbolic 16-bit code units (an embedded NUL ends the string early, so every length <= KLEN is
 * covered by the one query).  With -DSTRUCT_EXP the input is  D 'e' [+-]? D{EXPD}  (long exponents). */
#include "vnd.h"
#include "value.c"
#ifndef KLEN
#define KLEN 6
#endif
static int isd(UChar c) { return c >= '0' && c <= '9'; }
/* reference parser written from the grammar  [+-]?(D+(\.D*)?|\.D+)([eE][+-]?D+)?(\(D+\))?  */
struct refnum { int ok; int sign; char dig[KLEN + 1]; int nd; int scale; int has_su; char su[KLEN + 1]; int nsu; int huge_exp; };
static struct refnum ref_parse(const UChar *t) {
    struct refnum r; int i = 0, ni = 0, nf = 0, k; unsigned e = 0; int es = 1, ne = 0;
    r.ok = 0; r.sign = 1; r.nd = 0; r.scale = 0; r.has_su = 0; r.nsu = 0; r.huge_exp = 0;
    for (k = 0; k <= KLEN; k++) { r.dig[k] = 0; r.su[k] = 0; }
    if (t[i] == '+' || t[i] == '-') { if (t[i] == '-') r.sign = -1; i++; }
    while (isd(t[i])) { r.dig[r.nd++] = (char) t[i]; i++; ni++; }
    if (t[i] == '.') { i++; while (isd(t[i])) { r.dig[r.nd++] = (char) t[i]; i++; nf++; } }
    if (ni + nf == 0) return r;
    if (t[i] == 'e' || t[i] == 'E') {
        i++;
        if (t[i] == '+' || t[i] == '-') { if (t[i] == '-') es = -1; i++; }
        while (isd(t[i])) { e = e * 10u + (unsigned) (t[i] - '0'); i++; ne++; }
        if (!ne) return r;
        if (ne > 9) r.huge_exp = 1;   /* may exceed what the int scale field can hold */
    }
    if (t[i] == '(') {
        i++;
        while (isd(t[i])) { r.su[r.nsu++] = (char) t[i]; i++; }
        if (!r.nsu || t[i] != ')') return r;
        i++; r.has_su = 1;
    }
    if (t[i] != 0) return r;
    r.ok = 1; r.scale = r.huge_exp ? 0 : (nf - es * (int) e);
    return r;
}
/* s (NUL-terminated, from the library) equals ref[0..n) with insignificant leading zeros removed (one digit kept) */
static int same_digits(const char *s, const char *ref, int n) {
    int z = 0, i;
    while (z < n - 1 && ref[z] == '0') z++;
    for (i = 0; i <= KLEN; i++) {
        if (z + i >= n) return s[i] == 0;
        if (s[i] != ref[z + i]) return 0;
    }
    return 0;
}
void harness(void) {
    UChar *text = (UChar *) malloc((KLEN + 1) * sizeof(UChar)); int i, rc; cif_value_tp v; struct refnum r;
    V_MALLOC_OK(text);
#ifdef STRUCT_EXP
    { int p = 0; text[p] = vnd_u16(); V_ASSUME(isd(text[p])); p++; text[p++] = vnd_bool() ? 'e' : 'E';
      { int s = vnd_range(0, 2); if (s == 1) text[p++] = '+'; else if (s == 2) text[p++] = '-'; }
      for (i = 0; i < EXPD; i++) { text[p] = vnd_u16(); V_ASSUME(isd(text[p])); p++; }
      V_ASSUME(p <= KLEN); while (p <= KLEN) text[p++] = 0; }
#else
    for (i = 0; i < KLEN; i++) text[i] = vnd_u16();
    text[KLEN] = 0;
#endif
    v.kind = CIF_UNK_KIND;
    r = ref_parse(text);
#ifdef KF_EXCLUDE_NUMB_EXP_OVERFLOW
    V_ASSUME(!r.huge_exp);
#endif
    rc = cif_value_parse_numb(&v, text);
    V_ASSERT((rc == CIF_OK) == (r.ok != 0), "parse_numb accepts exactly the CIF numeric grammar");
    if (rc != CIF_OK) {
        V_ASSERT(rc == CIF_INVALID_NUMBER, "a refused string is refused with CIF_INVALID_NUMBER");
        V_ASSERT(v.kind == CIF_UNK_KIND, "a refused string leaves the value unmodified");
#ifndef STRUCT_EXP
        V_COVER("reject path");
#endif
    } else {
        V_ASSERT(v.kind == CIF_NUMB_KIND && v.as_numb.text == text, "accepted: value becomes a number owning the text");
        V_ASSERT(v.as_numb.sign == r.sign, "accepted: sign as written");
        V_ASSERT(same_digits(v.as_numb.digits, r.dig, r.nd), "accepted: digit string = the written mantissa digits without leading zeros");
        if (!r.huge_exp) V_ASSERT(v.as_numb.scale == r.scale, "accepted: scale = fraction digits - exponent");
        V_ASSERT((v.as_numb.su_digits != NULL) == (r.has_su != 0), "accepted: su present iff written");
        if (v.as_numb.su_digits) {
            V_ASSERT(same_digits(v.as_numb.su_digits, r.su, r.nsu), "accepted: su digits as written, without leading zeros");
#ifndef STRUCT_EXP
            V_COVER("accept path with su");
#endif
        }
        if (v.as_numb.scale != 0) V_COVER("accept path with non-zero scale");
        V_COVER("accept path");
        free(v.as_numb.digits); free(v.as_numb.su_digits);
    }
    free(text);
}
