/* C14: cif_walk visits every element once, parents first, frames before loops, start before end, and obeys the
 * navigation directives, for EVERY handler program over a symbolic tree.
 * Real cif_walk + walk_container/walk_loops/walk_loop/walk_packet/walk_item (cif.c); the storage API below them
 * (cif_get_all_blocks, cif_container_get_all_frames/_loops, cif_loop_get_packets, cif_pktitr_next_packet/_close, *_free)
 * is replaced by a symbolic tree: NB blocks x NF frames each x NL loops per container x NP packets x NI items (symbolic
 * counts up to the MAX* bounds).  The handler program is a symbolic table ANS[event] over {CONTINUE, SKIP_CURRENT,
 * SKIP_SIBLINGS, END, 7}.  Oracle: a reference walker run afterwards that classifies each event MUST / MUSTNOT / MAY:
 *   MAY (documentation silent): the end callback of an element whose start callback answered SKIP_CURRENT or
 *   SKIP_SIBLINGS, and the end callback of the parent of an element that answered SKIP_SIBLINGS.
 * Outside the claim (assumed away): SKIP_SIBLINGS answered by an *end* callback (meaning not documented). */
#include "vnd.h"
#include <stdlib.h>
#include <unicode/ustring.h>
#include <sqlite3.h>
#include "cif.h"
#include "internal/ciftypes.h"
#include "internal/utils.h"
#ifndef MAXB
#define MAXB 2
#endif
#ifndef MAXF
#define MAXF 1
#endif
#ifndef MAXL
#define MAXL 2
#endif
#ifndef MAXP
#define MAXP 2
#endif
#ifndef MAXI
#define MAXI 2
#endif
#define NC (MAXB * (1 + MAXF))
#define EVP (2 + MAXI)
#define EVL (2 + MAXP * EVP)
#define EVC (2 + MAXL * EVL)
#define NEV (2 + NC * EVC)
#ifndef POSCODE
#define POSCODE 7          /* the positive code a handler may answer; instances with POSCODE = 1 (CIF_FINISHED, the code the packet iterator uses for "no more packets") are enumerated too */
#endif
static unsigned NB, NF, NL, NP, NI;
static int ANS[NEV]; static unsigned char cnt[NEV]; static int seq[NEV]; static int nseq;
static int storage_calls;
static int live_cont[NC], live_loop[NC][MAXL], live_itr, live_pkt, bad_handle, bad_item, storage_fail;
static unsigned ev_c(unsigned c, int end) { return 2 + c * EVC + (end ? 1 : 0); }
static unsigned ev_l(unsigned c, unsigned l, int end) { return 2 + c * EVC + 2 + l * EVL + (end ? 1 : 0); }
static unsigned ev_p(unsigned c, unsigned l, unsigned p, int end) { return 2 + c * EVC + 2 + l * EVL + 2 + p * EVP + (end ? 1 : 0); }
static unsigned ev_i(unsigned c, unsigned l, unsigned p, unsigned i) { return 2 + c * EVC + 2 + l * EVL + 2 + p * EVP + 2 + i; }
static int fire(unsigned id) { if (cnt[id] < 3) cnt[id]++; seq[id] = ++nseq; return ANS[id]; }

/* ---- symbolic tree behind the storage API ---- */
static cif_container_tp *mkc(unsigned c, long long parent) {
    cif_container_tp *h = (cif_container_tp *) malloc(sizeof *h); V_MALLOC_OK(h);
    h->cif = 0; h->id = (sqlite3_int64) c; h->code = 0; h->code_orig = 0; h->parent_id = parent; live_cont[c]++; return h;
}
int cif_get_all_blocks(cif_tp *cif, cif_block_tp ***blocks) {
    unsigned i; cif_block_tp **a;
#ifdef FAIL_AT
    if (++storage_calls == FAIL_AT) { storage_fail = 1; return CIF_ERROR; }   /* the FAIL_AT-th storage call fails (driver enumerates FAIL_AT) */
#endif
    a = (cif_block_tp **) malloc((MAXB + 1) * sizeof *a); V_MALLOC_OK(a);
    for (i = 0; i < MAXB; i++) a[i] = (i < NB) ? mkc(i * (1 + MAXF), -1) : 0;
    a[NB] = 0; *blocks = a; return CIF_OK;
}
int cif_container_get_all_frames(cif_container_tp *c, cif_frame_tp ***frames) {
    unsigned i, n = (c->parent_id < 0) ? NF : 0; cif_frame_tp **a;
#ifdef FAIL_AT
    if (++storage_calls == FAIL_AT) { storage_fail = 1; return CIF_ERROR; }   /* the FAIL_AT-th storage call fails (driver enumerates FAIL_AT) */
#endif
    a = (cif_frame_tp **) malloc((MAXF + 1) * sizeof *a); V_MALLOC_OK(a);
    for (i = 0; i < MAXF; i++) a[i] = (i < n) ? mkc((unsigned) c->id + 1 + i, c->id) : 0;
    a[n] = 0; *frames = a; return CIF_OK;
}
void cif_container_free(cif_container_tp *c) { if (c) { live_cont[(unsigned) c->id]--; free(c); } }
int cif_container_get_all_loops(cif_container_tp *c, cif_loop_tp ***loops) {
    unsigned i; cif_loop_tp **a;
#ifdef FAIL_AT
    if (++storage_calls == FAIL_AT) { storage_fail = 1; return CIF_ERROR; }   /* the FAIL_AT-th storage call fails (driver enumerates FAIL_AT) */
#endif
    a = (cif_loop_tp **) malloc((MAXL + 1) * sizeof *a); V_MALLOC_OK(a);
    for (i = 0; i < MAXL; i++) {
        if (i < NL) { cif_loop_tp *l = (cif_loop_tp *) malloc(sizeof *l); V_MALLOC_OK(l); l->container = c; l->loop_num = (int) i; l->category = 0; l->names = 0; live_loop[(unsigned) c->id][i]++; a[i] = l; }
        else a[i] = 0;
    }
    a[NL] = 0; *loops = a; return CIF_OK;
}
void cif_loop_free(cif_loop_tp *l) { live_loop[(unsigned) l->container->id][l->loop_num]--; free(l); }
struct itr_m { unsigned c, l, pos; };
static unsigned cur_c, cur_l, cur_p; static struct entry_s *cur_ent[MAXI]; static cif_packet_tp *cur_pkt;
static UChar nm[MAXI][2];
int cif_loop_get_packets(cif_loop_tp *l, cif_pktitr_tp **it) {
    struct itr_m *m;
    if (NP == 0) return CIF_EMPTY_LOOP;
#ifdef FAIL_AT
    if (++storage_calls == FAIL_AT) { storage_fail = 1; return CIF_ERROR; }   /* the FAIL_AT-th storage call fails (driver enumerates FAIL_AT) */
#endif
    m = (struct itr_m *) malloc(sizeof *m); V_MALLOC_OK(m); m->c = (unsigned) l->container->id; m->l = (unsigned) l->loop_num; m->pos = 0;
    live_itr++; *it = (cif_pktitr_tp *) m; return CIF_OK;
}
int cif_pktitr_next_packet(cif_pktitr_tp *it, cif_packet_tp **p) {
    struct itr_m *m = (struct itr_m *) it; unsigned i; struct entry_s *prev = 0;
    if (m->pos >= NP) return CIF_FINISHED;
#ifdef FAIL_AT
    if (++storage_calls == FAIL_AT) { storage_fail = 1; return CIF_ERROR; }   /* the FAIL_AT-th storage call fails (driver enumerates FAIL_AT) */
#endif
    cur_c = m->c; cur_l = m->l; cur_p = m->pos; m->pos++;
    if (*p == 0) {
        cif_packet_tp *q = (cif_packet_tp *) malloc(sizeof *q); V_MALLOC_OK(q); q->map.head = 0; q->map.is_standalone = 1; q->map.normalizer = 0; live_pkt++;
        for (i = 0; i < MAXI; i++) if (i < NI) {
            struct entry_s *e = (struct entry_s *) malloc(sizeof *e); V_MALLOC_OK(e);
            e->as_value.kind = CIF_UNK_KIND; nm[i][0] = '_'; nm[i][1] = 0; e->key = nm[i]; e->key_orig = nm[i]; e->hh.next = 0; e->hh.prev = prev;
            if (prev) prev->hh.next = e; else q->map.head = e; prev = e; cur_ent[i] = e;
        }
        *p = q; cur_pkt = q;
    }
    return CIF_OK;
}
int cif_pktitr_close(cif_pktitr_tp *it) { live_itr--; free(it); return CIF_OK; }
void cif_packet_free(cif_packet_tp *p) { if (p) { struct entry_s *e = p->map.head; unsigned i; for (i = 0; i < MAXI; i++) if (e) { struct entry_s *n = (struct entry_s *) e->hh.next; free(e); e = n; } live_pkt--; free(p); } }

/* ---- handlers: answer from the symbolic program, check the handle they are given ---- */
static int h_cs(cif_tp *c, void *x) { return fire(0); }
static int h_ce(cif_tp *c, void *x) { return fire(1); }
static int cont_ev(cif_container_tp *c, int want_frame, int end) {
    unsigned id = (unsigned) c->id;
    if (id >= NC || live_cont[id] != 1 || ((c->parent_id >= 0) != want_frame)) { bad_handle = 1; return CIF_TRAVERSE_END; }
    return fire(ev_c(id, end));
}
static int h_bs(cif_container_tp *c, void *x) { return cont_ev(c, 0, 0); }
static int h_be(cif_container_tp *c, void *x) { return cont_ev(c, 0, 1); }
static int h_fs(cif_container_tp *c, void *x) { return cont_ev(c, 1, 0); }
static int h_fe(cif_container_tp *c, void *x) { return cont_ev(c, 1, 1); }
static int loop_ev(cif_loop_tp *l, int end) {
    unsigned c = (unsigned) l->container->id, n = (unsigned) l->loop_num;
    if (c >= NC || n >= MAXL || live_loop[c][n] != 1 || live_cont[c] != 1) { bad_handle = 1; return CIF_TRAVERSE_END; }
    return fire(ev_l(c, n, end));
}
static int h_ls(cif_loop_tp *l, void *x) { return loop_ev(l, 0); }
static int h_le(cif_loop_tp *l, void *x) { return loop_ev(l, 1); }
static int h_ps(cif_packet_tp *p, void *x) { if (p != cur_pkt || live_pkt != 1) { bad_handle = 1; return CIF_TRAVERSE_END; } return fire(ev_p(cur_c, cur_l, cur_p, 0)); }
static int h_pe(cif_packet_tp *p, void *x) { if (p != cur_pkt || live_pkt != 1) { bad_handle = 1; return CIF_TRAVERSE_END; } return fire(ev_p(cur_c, cur_l, cur_p, 1)); }
static int h_it(UChar *name, cif_value_tp *v, void *x) {
    unsigned i = (unsigned) ((name - &nm[0][0]) / 2);
    if (i >= MAXI || name != nm[i] || v != &cur_ent[i]->as_value) { bad_item = 1; return CIF_TRAVERSE_END; }
    return fire(ev_i(cur_c, cur_l, cur_p, i));
}

/* ---- reference walker (runs after the real walk; consults cnt[] only for MAY events) ---- */
#define ST_RUN 0
#define ST_STOP 1            /* END or positive code: nothing further may be delivered */
static int ref_stop, ref_rc, ref_bad, last_seq;
#define R_MUST 0
#define R_MAY 1
/* returns the answer if the event is (expected and) delivered, else CIF_TRAVERSE_CONTINUE; updates stop state */
static int expect(unsigned id, int mode) {
    int a;
    if (ref_stop) { if (cnt[id] != 0) ref_bad = 1; return CIF_TRAVERSE_CONTINUE; }
    if (mode == R_MUST) { if (cnt[id] != 1) ref_bad = 1; } else { if (cnt[id] > 1) ref_bad = 1; if (cnt[id] == 0) return CIF_TRAVERSE_CONTINUE; }
    if (cnt[id] == 0) return CIF_TRAVERSE_CONTINUE;
    if (seq[id] <= last_seq) ref_bad = 1;                  /* canonical order */
    last_seq = seq[id];
    a = ANS[id];
    if (a == CIF_TRAVERSE_END) ref_stop = 1;
    if (a > 0) { ref_stop = 1; ref_rc = a; }
    return a;
}
static void forbid(unsigned id) { if (cnt[id] != 0) ref_bad = 1; }
static void forbid_packet(unsigned c, unsigned l, unsigned p) { unsigned i; forbid(ev_p(c, l, p, 0)); forbid(ev_p(c, l, p, 1)); for (i = 0; i < MAXI; i++) forbid(ev_i(c, l, p, i)); }
static void forbid_loop(unsigned c, unsigned l) { unsigned p; forbid(ev_l(c, l, 0)); forbid(ev_l(c, l, 1)); for (p = 0; p < MAXP; p++) forbid_packet(c, l, p); }
static void forbid_cont_body(unsigned c) { unsigned l; for (l = 0; l < MAXL; l++) forbid_loop(c, l); }
static void forbid_cont(unsigned c) { forbid(ev_c(c, 0)); forbid(ev_c(c, 1)); forbid_cont_body(c); }
/* returns 1 if the element answered SKIP_SIBLINGS (caller suppresses later siblings, parent's end becomes MAY) */
static int ref_packet(unsigned c, unsigned l, unsigned p) {
    unsigned i; int a = expect(ev_p(c, l, p, 0), R_MUST), end_mode = R_MUST;
    if (ref_stop) { for (i = 0; i < MAXI; i++) forbid(ev_i(c, l, p, i)); forbid(ev_p(c, l, p, 1)); return 0; }
    if (a != CIF_TRAVERSE_CONTINUE) { for (i = 0; i < MAXI; i++) forbid(ev_i(c, l, p, i)); expect(ev_p(c, l, p, 1), R_MAY); return a == CIF_TRAVERSE_SKIP_SIBLINGS; }
    for (i = 0; i < MAXI; i++) {
        if (i >= NI) { forbid(ev_i(c, l, p, i)); continue; }
        a = expect(ev_i(c, l, p, i), R_MUST);
        if (!ref_stop && a == CIF_TRAVERSE_SKIP_SIBLINGS) { unsigned j; for (j = i + 1; j < MAXI; j++) forbid(ev_i(c, l, p, j)); end_mode = R_MAY; break; }
    }
    expect(ev_p(c, l, p, 1), end_mode);
    return 0;
}
static int ref_loop(unsigned c, unsigned l) {
    unsigned p; int a = expect(ev_l(c, l, 0), R_MUST), end_mode = R_MUST;
    if (ref_stop) { for (p = 0; p < MAXP; p++) forbid_packet(c, l, p); forbid(ev_l(c, l, 1)); return 0; }
    if (a != CIF_TRAVERSE_CONTINUE) { for (p = 0; p < MAXP; p++) forbid_packet(c, l, p); expect(ev_l(c, l, 1), R_MAY); return a == CIF_TRAVERSE_SKIP_SIBLINGS; }
    for (p = 0; p < MAXP; p++) {
        if (p >= NP) { forbid_packet(c, l, p); continue; }
        if (ref_packet(c, l, p) && !ref_stop) { unsigned q; for (q = p + 1; q < MAXP; q++) forbid_packet(c, l, q); end_mode = R_MAY; break; }
    }
    expect(ev_l(c, l, 1), end_mode);
    return 0;
}
static int ref_cont(unsigned c, int is_block) {
    unsigned f, l; int a = expect(ev_c(c, 0), R_MUST), end_mode = R_MUST;
    if (ref_stop || a != CIF_TRAVERSE_CONTINUE) {
        forbid_cont_body(c);
        if (is_block) for (f = 0; f < MAXF; f++) forbid_cont(c + 1 + f);
        if (ref_stop) forbid(ev_c(c, 1)); else expect(ev_c(c, 1), R_MAY);
        return !ref_stop && a == CIF_TRAVERSE_SKIP_SIBLINGS;
    }
    if (is_block) for (f = 0; f < MAXF; f++) {
        if (f >= NF) { forbid_cont(c + 1 + f); continue; }
        if (ref_cont(c + 1 + f, 0) && !ref_stop) { unsigned g; for (g = f + 1; g < MAXF; g++) forbid_cont(c + 1 + g); end_mode = R_MAY; break; }   /* loops are NOT siblings of frames */
    }
    for (l = 0; l < MAXL; l++) {
        if (l >= NL) { forbid_loop(c, l); continue; }
        if (ref_loop(c, l) && !ref_stop) { unsigned m; for (m = l + 1; m < MAXL; m++) forbid_loop(c, m); end_mode = R_MAY; break; }
    }
    expect(ev_c(c, 1), end_mode);
    return 0;
}
static void ref_walk(void) {
    unsigned b; int a, end_mode = R_MUST;
    ref_stop = 0; ref_rc = CIF_OK; ref_bad = 0; last_seq = 0;
    a = expect(0, R_MUST);
    if (ref_stop || a != CIF_TRAVERSE_CONTINUE) { for (b = 0; b < NC; b++) forbid_cont(b); if (ref_stop) forbid(1); else expect(1, R_MAY); return; }
    for (b = 0; b < MAXB; b++) {
        if (b >= NB) { unsigned f; forbid_cont(b * (1 + MAXF)); for (f = 0; f < MAXF; f++) forbid_cont(b * (1 + MAXF) + 1 + f); continue; }
        if (ref_cont(b * (1 + MAXF), 1) && !ref_stop) { unsigned d, f; for (d = b + 1; d < MAXB; d++) { forbid_cont(d * (1 + MAXF)); for (f = 0; f < MAXF; f++) forbid_cont(d * (1 + MAXF) + 1 + f); } end_mode = R_MAY; break; }
    }
    expect(1, end_mode);
}

void harness(void) {
    cif_handler_tp H = { h_cs, h_ce, h_bs, h_be, h_fs, h_fe, h_ls, h_le, h_ps, h_pe, h_it }; int rc; unsigned i, c, l, p, all_continue = 1, total = 0;
#ifdef EXACT_SHAPE
    NB = MAXB; NF = MAXF; NL = MAXL; NP = MAXP; NI = MAXI;      /* concrete shape per instance; the driver enumerates shapes */
#else
    NB = (unsigned) vnd_range(0, MAXB); NF = (unsigned) vnd_range(0, MAXF); NL = (unsigned) vnd_range(0, MAXL);
    NP = (unsigned) vnd_range(1, MAXP); NI = (unsigned) vnd_range(1, MAXI);
#endif
    for (i = 0; i < NEV; i++) {
        int a = vnd_int();
        V_ASSUME(a == CIF_TRAVERSE_CONTINUE || a == CIF_TRAVERSE_SKIP_CURRENT || a == CIF_TRAVERSE_SKIP_SIBLINGS || a == CIF_TRAVERSE_END || a == POSCODE);
        ANS[i] = a; cnt[i] = 0; seq[i] = 0;
    }
    /* outside the claim: SKIP_SIBLINGS answered by an end callback */
    V_ASSUME(ANS[1] != CIF_TRAVERSE_SKIP_SIBLINGS);
    for (c = 0; c < NC; c++) { V_ASSUME(ANS[ev_c(c, 1)] != CIF_TRAVERSE_SKIP_SIBLINGS);
        for (l = 0; l < MAXL; l++) { V_ASSUME(ANS[ev_l(c, l, 1)] != CIF_TRAVERSE_SKIP_SIBLINGS); for (p = 0; p < MAXP; p++) V_ASSUME(ANS[ev_p(c, l, p, 1)] != CIF_TRAVERSE_SKIP_SIBLINGS); } }
    nseq = 0; bad_handle = 0; bad_item = 0; storage_fail = 0;
    rc = cif_walk((cif_tp *) 0, &H, (void *) 0);
    /* resources: every handle obtained is released exactly once, every iterator closed, on every path */
    for (c = 0; c < NC; c++) { V_ASSERT(live_cont[c] == 0, "every container handle is released exactly once"); for (l = 0; l < MAXL; l++) V_ASSERT(live_loop[c][l] == 0, "every loop handle is released exactly once"); }
    V_ASSERT(live_itr == 0 && live_pkt == 0, "every iterator is closed and every packet released exactly once");
    V_ASSERT(!bad_handle, "handles passed to callbacks are live and of the right kind during the callback");
    V_ASSERT(!bad_item, "each item is presented with its own name and the value stored in its packet");
#ifdef FAIL_AT
    if (storage_fail) { V_ASSERT(rc == CIF_ERROR || rc == POSCODE || rc == CIF_OK, "a storage failure is returned (unless a handler stopped the walk first)"); V_COVER("storage failure path"); }
#else
    ref_walk();
    V_ASSERT(!ref_bad, "callbacks delivered = those the directives allow: each element once, in document order, none for bypassed elements");
    V_ASSERT(rc == ref_rc, "cif_walk returns CIF_OK for navigation answers and a positive handler code unchanged");
    for (i = 0; i < NEV; i++) { if (cnt[i] && ANS[i] != CIF_TRAVERSE_CONTINUE) all_continue = 0; total += cnt[i]; }
    if (all_continue) {
        unsigned per_cont = 2 + NL * (2 + NP * (2 + NI));
        V_ASSERT(total == 2 + NB * (per_cont + NF * per_cont), "all-continue handlers see every block, frame, loop, packet and item exactly once");
        if (NB == MAXB && NF == MAXF && NL == MAXL && NP == MAXP && NI == MAXI) V_COVER("full tree, all continue");
    }
    if (rc == POSCODE) V_COVER("positive code path");
#endif
    V_COVER("end");
}
