/* C19 (clone): cif_value_clone yields a value equal to the original in kind, text, quoting, numeric attributes and
 * recursive structure that shares no storage with it: releasing or re-initialising either leaves the other intact.
 * The SHAPE of the value tree is concrete per instance (driver enumerates), contents (texts, flags, digits) symbolic.
 * Sharing is detected by CBMC's memory checks (use after free) when the survivor is traversed, and by pointer inequality. */
#include "vnd.h"
#include <stdlib.h>
#include <unicode/ustring.h>
#include "cif.h"
#include "internal/ciftypes.h"
#include "internal/utils.h"
#include "value_shapes.h"
void harness(void) {
    cif_value_tp *orig = build(SHAPE), *copy = NULL, *witness = NULL; int rc, which = WHICH;   /* concrete per instance; the driver enumerates 0..3 */
#ifdef INTO_EXISTING
    copy = build(EXISTING_SHAPE);                   /* clone into an existing object: its previous content must be released */
#endif
    rc = cif_value_clone(orig, &copy);
    V_ASSERT(rc == CIF_OK && copy != NULL, "clone succeeds");
    bad = 0; same(SHAPE, orig, copy);
    V_ASSERT(!bad, "clone equals the original in kind, text, quoting, numeric attributes and structure, sharing no storage");
    /* independence: change or release one side, then the other must still be intact (and readable: memory checks) */
    rc = cif_value_clone(orig, &witness); V_ASSUME(rc == CIF_OK);           /* an untouched reference copy */
    if (which == 0) { cif_value_free(orig); orig = NULL; bad = 0; same(SHAPE, witness, copy); V_ASSERT(!bad, "releasing the original leaves the clone intact"); }
    else if (which == 1) { cif_value_free(copy); copy = NULL; bad = 0; same(SHAPE, witness, orig); V_ASSERT(!bad, "releasing the clone leaves the original intact"); }
    else if (which == 2) { rc = cif_value_init(copy, CIF_NA_KIND); V_ASSERT(rc == CIF_OK, "re-initialisation succeeds"); bad = 0; same(SHAPE, witness, orig); V_ASSERT(!bad, "re-initialising the clone leaves the original intact"); }
    else if (which == 4) {   /* the clone is a list in its own right: it can be extended (it owns room for what its bookkeeping says it owns) */
        size_t n0 = 0, n1 = 0, no = 0; int room_ok; cif_value_get_element_count(copy, &n0);
        /* representation invariant of a list: the element array holds at least `capacity` slots (an insert below capacity does not reallocate) */
        room_ok = (copy->kind != CIF_LIST_KIND) || (copy->as_list.capacity == 0) || (copy->as_list.elements != NULL
                   && __CPROVER_OBJECT_SIZE(copy->as_list.elements) >= copy->as_list.capacity * sizeof(cif_value_tp *));
        V_ASSERT(room_ok, "the clone's capacity does not exceed the room its element array has");
        if (room_ok) {
        rc = cif_value_insert_element_at(copy, n0, NULL); V_ASSERT(rc == CIF_OK, "an element can be appended to the clone");
        rc = cif_value_insert_element_at(copy, 0, NULL); V_ASSERT(rc == CIF_OK, "an element can be inserted into the clone");
        cif_value_get_element_count(copy, &n1); cif_value_get_element_count(orig, &no);
        V_ASSERT(n1 == n0 + 2 && no == n0, "extending the clone changes the clone only");
        bad = 0; same(SHAPE, witness, orig); V_ASSERT(!bad, "extending the clone leaves the original intact"); } }
    else { rc = cif_value_init(orig, CIF_LIST_KIND); V_ASSERT(rc == CIF_OK, "re-initialisation succeeds"); bad = 0; same(SHAPE, witness, copy); V_ASSERT(!bad, "re-initialising the original leaves the clone intact"); }
    cif_value_free(orig); cif_value_free(copy); cif_value_free(witness);    /* leak check: every (re)initialisation released the previous content */
    V_COVER("end");
}
