/* C02 / C13 (the seam between write_text and fold_line): the real write_text (ciffile.c) with fold_line replaced by a stub
 * that checks the arguments it is called with - the ones the fold_line unit queries (h02_fold.c) are run with and rely on:
 * folding is requested exactly when write_text was asked to fold; a continuation may be allowed to start with ';'
 * (for_prefix) only when the prefix protocol really is in effect; target length and window are the ones the unit queries use.
 * The stub returns the whole rest of the line (no fold), which keeps the query small; what fold_line returns is h02_fold.c's
 * subject, what write_text does with it is h02_writer.c's. */
#include "vnd.h"
#include <stdlib.h>
#include <unicode/ustring.h>
#include <unicode/ustdio.h>
#include <sqlite3.h>
#include "cif.h"
#include "internal/ciftypes.h"
#include "internal/utils.h"
#ifndef VERIF_REPLAY
#include "write_context_gen.h"
#else
#define FOLD_WINDOW_GEN FOLDING_WINDOW
#define PREFIX_LENGTH_GEN PREFIX_LENGTH
#define FOLD_TARGET_GEN (CIF_LINE_LENGTH - (FOLDING_WINDOW + PREFIX_LENGTH + 1))
#endif
#ifndef KLEN
#define KLEN 3
#endif
int __CPROVER_file_local_ciffile_c_write_text(void *context, UChar *text, int32_t length, int fold, int prefix);
static int the_fold, the_prefix, calls, bad_fold, bad_prefix, bad_geometry;
int __CPROVER_file_local_ciffile_c_fold_line(const UChar *line, int do_fold, int target_length, int window, int for_prefix) {
    int n = 0; calls++;
    if (!do_fold != !the_fold) bad_fold = 1;
    if (for_prefix && !the_prefix) bad_prefix = 1;
    if (target_length != FOLD_TARGET_GEN || window != FOLD_WINDOW_GEN) bad_geometry = 1;
    while (line[n]) n++;
    return n;
}
void harness(void) {
    write_context_t ctx; UChar s[KLEN + 1]; int i, rc;
    for (i = 0; i < KLEN; i++) { s[i] = vnd_u16(); V_ASSUME(s[i] != 0 && s[i] != 0x0d); }
    s[KLEN] = 0;
    the_fold = vnd_bool(); the_prefix = vnd_bool();
    ctx.file = 0; ctx.write_item_names = 0; ctx.separate_values = 1; ctx.depth = 1; ctx.version = 0; ctx.last_column = vnd_range(0, CIF_LINE_LENGTH);
    rc = __CPROVER_file_local_ciffile_c_write_text(&ctx, s, KLEN, the_fold, the_prefix);
    V_ASSERT(!bad_fold, "fold_line is asked to fold exactly when write_text was");
    V_ASSERT(!bad_prefix, "a continuation may start with a semicolon only when the prefix protocol is in effect");
    V_ASSERT(!bad_geometry, "fold_line gets the target length and window the fold-point queries assume");
    if (calls) V_COVER_OPT("fold_line consulted");
    (void) rc;
    V_COVER("end");
}
