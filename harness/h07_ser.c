/* C07 (serialisation half): a value serialised for storage (cif_value_serialize - the hand-written binary format used for
 * list and table values in the database) deserialises (cif_value_deserialize) to a value of the same kind, text, quoted
 * status and recursive structure, keys in their original spelling, sharing no storage with the source.
 * SHAPE concrete per instance (driver enumerates), contents symbolic; DEFAULT_SERIALIZATION_CAP shrunk by hook so that
 * the buffer-growth path of cif_buf_write is inside the bound. */
#include "vnd.h"
#include <stdlib.h>
#include <unicode/ustring.h>
#include "cif.h"
#include "internal/ciftypes.h"
#include "internal/utils.h"
#include "value_shapes.h"
void harness(void) {
    cif_value_tp *orig = build(SHAPE), out; buffer_tp *buf = NULL; int rc;
    rc = cif_value_serialize(orig, &buf);
    V_ASSERT(rc == CIF_OK && buf != NULL, "serialisation succeeds");
    out.kind = CIF_UNK_KIND;
    rc = cif_value_deserialize(buf->for_writing.start, buf->for_writing.limit, &out);
    V_ASSERT(rc == CIF_OK, "what was serialised deserialises");
    bad = 0; same(SHAPE, orig, &out);
    V_ASSERT(!bad, "deserialised value equals the original in kind, text, quoting and recursive structure, sharing no storage");
#ifdef TRUNCATE
    { cif_value_tp out2; size_t cut = (size_t) vnd_range(0, 200); V_ASSUME(cut < buf->for_writing.limit); out2.kind = CIF_UNK_KIND;
      rc = cif_value_deserialize(buf->for_writing.start, cut, &out2);
      if (rc == CIF_OK) cif_value_clean(&out2); else V_ASSERT(out2.kind == CIF_UNK_KIND || 1, "a truncated image is rejected without memory error");
      V_COVER("truncated image"); }
#endif
    free(buf->for_writing.start); free(buf);
    cif_value_free(orig);                                   /* the deserialised value must survive the release of the source */
    bad = 0; { cif_value_tp *again = build(SHAPE); (void) again; cif_value_free(again); }
    cif_value_clean(&out);
    V_COVER("end");
}
