/* C18: cif_is_reserved_string is true exactly for strings with a reserved first character or of reserved-word form. */
#include "vnd.h"
#include "utils.c"
#ifndef KLEN
#define KLEN 8
#endif
static int lc(UChar c) { return (c >= 'A' && c <= 'Z') ? c + 32 : c; }
static int pre(const UChar *s, const char *w) { int i; for (i = 0; w[i]; i++) if (lc(s[i]) != w[i]) return 0; return i; }
void harness(void) {
    UChar s[KLEN + 1]; int i, ref, got, n;
    for (i = 0; i < KLEN; i++) s[i] = vnd_u16();
    s[KLEN] = 0;
    ref = (s[0] == '_' || s[0] == '#' || s[0] == '$' || s[0] == '\'' || s[0] == '"');
    if (pre(s, "data_") || pre(s, "save_")) ref = 1;                        /* prefix forms */
    if ((n = pre(s, "loop_")) && s[n] == 0) ref = 1;                        /* exact forms */
    if ((n = pre(s, "stop_")) && s[n] == 0) ref = 1;
    if ((n = pre(s, "global_")) && s[n] == 0) ref = 1;
    got = cif_is_reserved_string(s);
    V_ASSERT((got != 0) == (ref != 0), "cif_is_reserved_string == reference predicate");
    if (ref && s[0] == 'g') V_COVER("global_ reachable");
    if (!ref) V_COVER("non-reserved reachable");
    V_COVER("end");
}
