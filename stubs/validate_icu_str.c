/* Setup-time validation of stubs/icu_str.c against the real ICU (libicuuc) on this machine: every model is compared with
 * the function it stands for on all strings of up to 5 units over an alphabet that contains the characters the library's
 * callers care about (NUL, letters, quotes, semicolon, blank, a Latin-1 letter, lead and trail surrogates).
 * u_strstr is compared for patterns without surrogates only (ICU's matches at code-point boundaries; cif_api searches for
 * ASCII delimiters).  Exit 0 = all models agree. */
#include <stdio.h>
#include <string.h>
#include <unicode/ustring.h>
#include <unicode/unorm.h>
/* the real functions, captured before the names are redirected to the models */
static int32_t (*r_u_strlen)(const UChar *) = u_strlen;
static UChar *(*r_u_strcpy)(UChar *, const UChar *) = u_strcpy;
static UChar *(*r_u_strncpy)(UChar *, const UChar *, int32_t) = u_strncpy;
static int32_t (*r_u_strcmp)(const UChar *, const UChar *) = u_strcmp;
static int32_t (*r_u_strncmp)(const UChar *, const UChar *, int32_t) = u_strncmp;
static UChar *(*r_u_strstr)(const UChar *, const UChar *) = u_strstr;
static int32_t (*r_u_countChar32)(const UChar *, int32_t) = u_countChar32;
static UBool (*r_u_strHasMoreChar32Than)(const UChar *, int32_t, int32_t) = u_strHasMoreChar32Than;
static UChar *(*r_u_strncat)(UChar *, const UChar *, int32_t) = u_strncat;
static UChar *(*r_u_memchr)(const UChar *, UChar, int32_t) = u_memchr;
static UChar *(*r_u_memmove)(UChar *, const UChar *, int32_t) = u_memmove;
static UChar *(*r_u_memcpy)(UChar *, const UChar *, int32_t) = u_memcpy;
static UChar *(*r_u_strpbrk)(const UChar *, const UChar *) = u_strpbrk;
#define REAL(x) r_##x
#undef u_strlen
#undef u_strcpy
#undef u_strncpy
#undef u_strcmp
#undef u_strncmp
#undef u_strstr
#undef u_countChar32
#undef u_strHasMoreChar32Than
#undef u_strncat
#undef u_memchr
#undef u_memmove
#undef u_memcpy
#undef u_strpbrk
#undef u_errorName
#define u_strlen m_strlen
#define u_strcpy m_strcpy
#define u_strncpy m_strncpy
#define u_strcmp m_strcmp
#define u_strncmp m_strncmp
#define u_strstr m_strstr
#define u_countChar32 m_countChar32
#define u_strHasMoreChar32Than m_strHasMoreChar32Than
#define u_strncat m_strncat
#define u_memchr m_memchr
#define u_memmove m_memmove
#define u_memcpy m_memcpy
#define u_strpbrk m_strpbrk
#define u_errorName m_errorName
#include "icu_str.c"
static const UChar A[] = { 0, 'a', 'B', 0x27, '"', ';', ' ', 0xe9, 0xd800, 0xdc00 };
#define NA 10
#define L 5
static int sgn(int x) { return (x > 0) - (x < 0); }
static int fails;
#define CHECK(c, what) do { if (!(c)) { if (fails < 10) printf("MISMATCH %s\n", what); fails++; } } while (0)
static void gen(UChar *s, unsigned long k) { int i; for (i = 0; i < L; i++) { s[i] = A[k % NA]; k /= NA; } s[L] = 0; }
int main(void) {
    unsigned long i, j, n = 1; int k; UChar s[L + 1], t[L + 1], d1[2 * L + 2], d2[2 * L + 2];
    static const UChar sq3[] = { 0x27, 0x27, 0x27, 0 }, dq3[] = { '"', '"', '"', 0 }, ab[] = { 'a', 'B', 0 }, empty[] = { 0 };
    const UChar *pats[] = { sq3, dq3, ab, empty };
    for (k = 0; k < L; k++) n *= NA;
    for (i = 0; i < n; i += 1) {
        gen(s, i);
        CHECK(m_strlen(s) == REAL(u_strlen)(s), "u_strlen");
        CHECK(m_countChar32(s, -1) == REAL(u_countChar32)(s, -1), "u_countChar32(-1)");
        for (k = 0; k <= L; k++) { CHECK(m_countChar32(s, k) == REAL(u_countChar32)(s, k), "u_countChar32(n)"); CHECK(!m_strHasMoreChar32Than(s, -1, k) == !REAL(u_strHasMoreChar32Than)(s, -1, k), "u_strHasMoreChar32Than");
                                  CHECK((m_memchr(s, 'a', k) == NULL ? -1 : m_memchr(s, 'a', k) - s) == (REAL(u_memchr)(s, 'a', k) == NULL ? -1 : REAL(u_memchr)(s, 'a', k) - s), "u_memchr"); }
        for (k = 0; k < 4; k++) { UChar *a = m_strstr(s, pats[k]), *b = REAL(u_strstr)(s, pats[k]); CHECK((a ? a - s : -1) == (b ? b - s : -1), "u_strstr");
                                  a = m_strpbrk(s, pats[k]); b = REAL(u_strpbrk)(s, pats[k]); CHECK((a ? a - s : -1) == (b ? b - s : -1), "u_strpbrk"); }
        memset(d1, 0x55, sizeof d1); memset(d2, 0x55, sizeof d2); m_strcpy(d1, s); REAL(u_strcpy)(d2, s); CHECK(memcmp(d1, d2, sizeof d1) == 0, "u_strcpy");
        for (k = 0; k <= L + 1; k++) { memset(d1, 0x55, sizeof d1); memset(d2, 0x55, sizeof d2); m_strncpy(d1, s, k); REAL(u_strncpy)(d2, s, k); CHECK(memcmp(d1, d2, sizeof d1) == 0, "u_strncpy");
                                      memset(d1, 0x55, sizeof d1); memset(d2, 0x55, sizeof d2); d1[0] = d2[0] = 'x'; d1[1] = d2[1] = 0; m_strncat(d1, s, k); REAL(u_strncat)(d2, s, k); CHECK(memcmp(d1, d2, sizeof d1) == 0, "u_strncat");
                                      memset(d1, 0x55, sizeof d1); memset(d2, 0x55, sizeof d2); m_memcpy(d1, s, k > L ? L : k); REAL(u_memcpy)(d2, s, k > L ? L : k); CHECK(memcmp(d1, d2, sizeof d1) == 0, "u_memcpy"); }
        /* overlapping moves inside one buffer, both directions */
        for (k = 0; k <= 2; k++) { memcpy(d1, s, sizeof s); memcpy(d2, s, sizeof s); m_memmove(d1 + k, d1, L - k); REAL(u_memmove)(d2 + k, d2, L - k); CHECK(memcmp(d1, d2, sizeof s) == 0, "u_memmove up");
                                   memcpy(d1, s, sizeof s); memcpy(d2, s, sizeof s); m_memmove(d1, d1 + k, L - k); REAL(u_memmove)(d2, d2 + k, L - k); CHECK(memcmp(d1, d2, sizeof s) == 0, "u_memmove down"); }
        if (i % 97 == 0) for (j = 0; j < n; j += 7) { gen(t, j); CHECK(sgn(m_strcmp(s, t)) == sgn(REAL(u_strcmp)(s, t)), "u_strcmp");
            for (k = 0; k <= L; k++) CHECK(sgn(m_strncmp(s, t, k)) == sgn(REAL(u_strncmp)(s, t, k)), "u_strncmp"); }
    }
    /* the two singleton mappings stubs/icu_norm_cheap.c models with -DNORM_SINGLETONS, and the ASCII case fold */
    { static const UChar in[] = { 0x212B, 0x2126, 'A', 'z', 0 }; UChar out[8]; UErrorCode st = U_ZERO_ERROR; int32_t r = unorm_normalize(in, -1, UNORM_NFC, 0, out, 8, &st);
      CHECK(U_SUCCESS(st) && r == 4 && out[0] == 0x00C5 && out[1] == 0x03A9 && out[2] == 'A' && out[3] == 'z', "NFC singletons");
      st = U_ZERO_ERROR; r = unorm_normalize(in, -1, UNORM_NFD, 0, out, 8, &st); CHECK(U_SUCCESS(st) && out[r - 2] == 'A' && out[r - 1] == 'z', "NFD leaves ASCII alone");
      st = U_ZERO_ERROR; r = u_strFoldCase(out, 8, in + 2, -1, 0, &st); CHECK(U_SUCCESS(st) && r == 2 && out[0] == 'a' && out[1] == 'z', "ASCII case fold"); }
    if (fails) { printf("ICU string models: %d mismatches\n", fails); return 1; }
    printf("ICU string models agree with libicuuc on %lu strings\n", n);
    return 0;
}
