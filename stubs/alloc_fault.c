/* Allocation-failure injection (DESIGN.md 3.6): library TUs are compiled with -Dmalloc=vf_malloc -Dcalloc=vf_calloc
 * -Drealloc=vf_realloc -Dstrdup=vf_strdup.  While armed, the allocation whose ordinal equals vf_fail_at fails (returns
 * NULL); every other allocation succeeds.  vf_fail_at is chosen by the harness (symbolic: all ordinals at once). */
#include <stdlib.h>
#include <string.h>
#undef malloc
#undef calloc
#undef realloc
#undef strdup
int vf_armed, vf_count, vf_fail_at, vf_failed;
static int vf_tick(void) { if (!vf_armed) return 0; vf_count++; if (vf_count == vf_fail_at) { vf_failed = 1; return 1; } return 0; }
void *vf_malloc(size_t n) { void *p; if (vf_tick()) return 0; p = malloc(n);
#ifndef VERIF_REPLAY
    __CPROVER_assume(p != 0);
#endif
    return p; }
void *vf_calloc(size_t a, size_t b) { void *p; if (vf_tick()) return 0; p = calloc(a, b);
#ifndef VERIF_REPLAY
    __CPROVER_assume(p != 0);
#endif
    return p; }
void *vf_realloc(void *q, size_t n) { void *p; if (vf_tick()) return 0; p = realloc(q, n);
#ifndef VERIF_REPLAY
    __CPROVER_assume(p != 0);
#endif
    return p; }
char *vf_strdup(const char *s) { size_t n = strlen(s) + 1; char *p; if (vf_tick()) return 0; p = (char *) malloc(n);
#ifndef VERIF_REPLAY
    __CPROVER_assume(p != 0);
#endif
    memcpy(p, s, n); return p; }
