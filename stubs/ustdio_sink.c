/* In-memory model of ICU's u_fprintf / u_fputc for exactly the format strings used by ciffile.c
 * (literals, %S %s %c and their %*.*S / %*.*s forms).  An unknown conversion is an assertion failure, so a changed format
 * cannot be silently mis-modelled.  Returns ICU's documented count (code units written). */
#include <stdarg.h>
#include <unicode/ustdio.h>
#include "vnd.h"
#ifndef SINK_MAX
#define SINK_MAX 96
#endif
UChar vout[SINK_MAX]; int vout_len; int sink_overflow, sink_badfmt;
static void put(UChar c) { if (vout_len < SINK_MAX - 1) vout[vout_len++] = c; else sink_overflow = 1; }
int32_t u_fprintf(UFILE *f, const char *fmt, ...) {
    va_list ap; int32_t n = 0; int i = 0; va_start(ap, fmt);
    while (fmt[i]) {
        if (fmt[i] != '%') { put((UChar) (unsigned char) fmt[i]); n++; i++; continue; }
        i++;
        { int w = -1, p = -1;
          if (fmt[i] == '*') { w = va_arg(ap, int); i++; if (fmt[i] == '.') { i++; if (fmt[i] != '*') sink_badfmt = 1; p = va_arg(ap, int); i++; } }
          if (fmt[i] == 'S') { const UChar *s = va_arg(ap, const UChar *); int k = 0; while (s[k] && (p < 0 || k < p)) { put(s[k]); k++; n++; } if (w >= 0 && k < w) sink_badfmt = 1; }
          else if (fmt[i] == 's') { const char *s = va_arg(ap, const char *); int k = 0; while (s[k] && (p < 0 || k < p)) { put((UChar) (unsigned char) s[k]); k++; n++; } if (w >= 0 && k < w) sink_badfmt = 1; }
          else if (fmt[i] == 'c') { int c = va_arg(ap, int); put((UChar) (unsigned char) c); n++; }   /* ICU: %c is a char; (cbmc does not promote variadic char arguments) */
          else sink_badfmt = 1;
          i++; }
    }
    va_end(ap); return n;
}
UChar32 u_fputc(UChar32 c, UFILE *f) { put((UChar) c); return c; }
UFILE *u_finit(FILE *f, const char *locale, const char *codepage) { return (UFILE *) &vout; }
void u_fclose(UFILE *f) { }
void u_fflush(UFILE *f) { }
