/* Exact models of the ICU leaf string helpers used by cif_api (DESIGN.md 3.1).
 * Compiled under the real ICU headers so that the versioned symbol renaming (u_strlen_72 ...) matches.
 * Not compiled in native replays: there the real libicuuc is linked. */
#include <unicode/ustring.h>
#include <stdlib.h>
int32_t u_strlen(const UChar *s){ int32_t n=0; while(s[n]) n++; return n; }
UChar *u_strcpy(UChar *d,const UChar *s){ int32_t i=0; do { d[i]=s[i]; } while(s[i++]); return d; }
UChar *u_strncpy(UChar *d,const UChar *s,int32_t n){ int32_t i=0; while(i<n && s[i]){ d[i]=s[i]; i++; } if(i<n) d[i]=0; return d; }
int32_t u_strcmp(const UChar *a,const UChar *b){ int32_t i=0; while(a[i] && a[i]==b[i]) i++; return (int32_t)a[i]-(int32_t)b[i]; }
int32_t u_strncmp(const UChar *a,const UChar *b,int32_t n){ int32_t i=0; if(n<=0) return 0; while(i<n-1 && a[i] && a[i]==b[i]) i++; return (int32_t)a[i]-(int32_t)b[i]; }
UChar *u_strstr(const UChar *s,const UChar *sub){ int32_t i,j; if(!sub[0]) return (UChar*)s; for(i=0;s[i];i++){ for(j=0; sub[j] && s[i+j]==sub[j]; j++); if(!sub[j]) return (UChar*)(s+i); if(!s[i+j]) return 0;} return 0; }
int32_t u_countChar32(const UChar *s,int32_t length){ int32_t n=0,i=0; while((length<0)? (s[i]!=0) : (i<length)){ if((s[i]&0xfc00)==0xd800 && ((length<0)||(i+1<length)) && (s[i+1]&0xfc00)==0xdc00) i+=2; else i+=1; n++; } return n; }
UBool u_strHasMoreChar32Than(const UChar *s,int32_t length,int32_t number){ return u_countChar32(s,length)>number; }
UChar *u_strncat(UChar *d,const UChar *s,int32_t n){ int32_t i=0,j=0; while(d[i]) i++; while(j<n && s[j]){ d[i+j]=s[j]; j++; } d[i+j]=0; return d; }
UChar *u_memchr(const UChar *s, UChar c, int32_t count){ int32_t i; for(i=0;i<count;i++) if(s[i]==c) return (UChar*)(s+i); return 0; }
UChar *u_memmove(UChar *d,const UChar *s,int32_t count){ int32_t i; if(d<s){ for(i=0;i<count;i++) d[i]=s[i]; } else if(d>s){ for(i=count-1;i>=0;i--) d[i]=s[i]; } return d; }
UChar *u_memcpy(UChar *d,const UChar *s,int32_t count){ int32_t i; for(i=0;i<count;i++) d[i]=s[i]; return d; }
UChar *u_strpbrk(const UChar *s,const UChar *set){ int32_t i,j; for(i=0;s[i];i++) for(j=0;set[j];j++) if(s[i]==set[j]) return (UChar*)(s+i); return 0; }
const char *u_errorName(UErrorCode code){ return "ICU_ERROR"; }
