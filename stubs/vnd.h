/* vnd.h -- the one layer through which harnesses talk to the solver (or to a replay script).
 *
 * CBMC mode (default): V_ASSERT/V_ASSUME map to __CPROVER_assert/__CPROVER_assume (config.h defines
 * NDEBUG, so assert() would silently vanish).  Every nondeterministic choice goes through a vnd_*()
 * function so that the counterexample trace lists the choices in call order
 * (goto_symex$$return_value$$vnd_* assignments), which is what the driver turns into a replay script.
 *
 * Replay mode (-DVERIF_REPLAY, native gcc + ASan/UBSan): vnd_*() read the script, V_ASSERT prints and
 * exits 1, V_ASSUME exits 77 (the script left the assumed region: the replay is invalid).
 */
#ifndef VND_H
#define VND_H
#include <stddef.h>
#include <stdint.h>

#ifdef VERIF_REPLAY
#include <stdio.h>
#include <stdlib.h>
#include <string.h>
__attribute__((weak)) FILE *vnd_script;   /* one script position shared by all translation units of a replay */
static long long vnd_next(const char *kind) {
    char k[32]; long long v;
    if (!vnd_script) {
        const char *p = getenv("VND_SCRIPT");
        vnd_script = p ? fopen(p, "r") : NULL;
        if (!vnd_script) { printf("REPLAY-ERROR: no script\n"); exit(78); }
    }
    if (fscanf(vnd_script, "%31s %lld", k, &v) != 2) {
        /* script exhausted: the native run makes more choices than the trace; use 0 */
        return 0;
    }
    if (getenv("VND_DEBUG")) fprintf(stderr, "vnd %s -> %s %lld\n", kind, k, v);
    if (strcmp(k, kind) != 0) { printf("REPLAY-MISMATCH: wanted %s got %s\n", kind, k); exit(79); }
    return v;
}
#define VND_DEF(name, type) static type vnd_##name(void) { return (type) vnd_next(#name); }
#define V_ASSERT(c, msg) do { if (!(c)) { printf("REPLAY-ASSERT-FAILED: %s\n", msg); fflush(stdout); exit(1); } } while (0)
#define V_ASSUME(c) do { if (!(c)) { printf("REPLAY-ASSUME-VIOLATED: %s\n", #c); fflush(stdout); exit(77); } } while (0)
#define V_COVER(label) ((void) 0)
#define V_COVER_OPT(label) ((void) 0)
#define V_MALLOC_OK(p) do { if (!(p)) exit(78); } while (0)
#include <malloc.h>
#define __CPROVER_OBJECT_SIZE(p) malloc_usable_size((void *) (p))   /* under ASan: the requested size */
#else
int nondet_int(void); unsigned nondet_uint(void); unsigned short nondet_u16(void); long long nondet_ll(void);
unsigned char nondet_u8(void); size_t nondet_size(void);
#define VND_DEF(name, type) static type vnd_##name(void) { type v = nondet_##name(); return v; }
#define V_ASSERT(c, msg) __CPROVER_assert((c), msg)
#define V_ASSUME(c) __CPROVER_assume(c)
/* reachability witness: this "assertion" MUST be reported as FAILURE, else the harness is vacuous */
#define V_COVER(label) __CPROVER_assert(0, "WITNESS " label)
/* optional witness: recorded in evidence when reachable, no complaint when not */
#define V_COVER_OPT(label) __CPROVER_assert(0, "WITNESS? " label)
#define V_MALLOC_OK(p) __CPROVER_assume((p) != 0)
#endif

VND_DEF(int, int)
VND_DEF(uint, unsigned)
VND_DEF(u16, unsigned short)
VND_DEF(u8, unsigned char)
VND_DEF(ll, long long)
VND_DEF(size, size_t)

/* a choice in [lo, hi] */
static int vnd_range(int lo, int hi) { int v = vnd_int(); V_ASSUME(v >= lo && v <= hi); return v; }
static int vnd_bool(void) { int v = vnd_int(); V_ASSUME(v == 0 || v == 1); return v; }
#endif
