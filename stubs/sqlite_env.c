/* Contract-constrained nondeterministic SQLite environment (DESIGN.md 3.3).
 * What it knows: the connection's transaction stack with SQLite's exact begin / commit / rollback / savepoint / release /
 * rollback-to semantics (rollback-to keeps the savepoint), which frames hold uncommitted modifications ("dirty"), the
 * statement life cycle (prepare -> bind -> step -> row|done -> reset -> finalize, exactly one finalize), the binding
 * destructor protocol of sqlite3_bind_text16/text/blob (destructor called on rebind / clear / finalize / failed bind), and
 * whether a statement modifies the database (its SQL text does not start with "select").
 * What it does not know: what a statement means.  Outcomes are NONDETERMINISTIC within the documented result codes.
 * Per-connection counters the harnesses assert on:
 *   committed   modifications that have become durable (autocommit statements, commit, release of an outermost savepoint)
 *   level       open frames (0 = autocommit); frames[l].dirty / frames[l].is_savepoint
 */
#include <sqlite3.h>
#include <string.h>
#include <stdlib.h>
#include "vnd.h"
#include "sqlite_env.h"
#ifdef SENV_COLSTORE
#include "sql_colmap_gen.h"
#endif
struct senv_binding senv_row[32]; int senv_row_valid;

static int rc_fail(void) { int r = vnd_int(); V_ASSUME(r == SQLITE_ERROR || r == SQLITE_BUSY || r == SQLITE_NOMEM || r == SQLITE_CONSTRAINT || r == SQLITE_FULL || r == SQLITE_IOERR); return r; }
/* optional refinements a harness may install for particular statements (return -1 / 0 to fall back to the default) */
int (*senv_step_hook)(sqlite3_stmt *s);
int (*senv_int_hook)(sqlite3_stmt *s, int col, int *out);
const void *(*senv_text16_hook)(sqlite3_stmt *s, int col, int *bytes);
int senv_benign;                 /* when set, every call succeeds (used for the follow-up call of the C05 harnesses) */
/* failure mode: 0 = every fallible call may fail (symbolic); 1 = exactly the senv_fail_at-th fallible call fails (0 = none) */
int senv_fail_mode, senv_fail_at, senv_calls;
static int may_fail(void) { if (senv_benign) return 0; if (senv_fail_mode) return ++senv_calls == senv_fail_at; return vnd_bool(); }

int sqlite3_get_autocommit(sqlite3 *db) { return db->level == 0; }
/* rows changed by the most recent completed modifying statement.  Refinement (DESIGN.md section 7): every statement whose
 * change count the C code inspects addresses its row by full primary key, so the count is 0 or 1; "insert" always 1. */
int sqlite3_changes(sqlite3 *db) { return db->last_changes; }
sqlite3_int64 sqlite3_last_insert_rowid(sqlite3 *db) { sqlite3_int64 v = vnd_ll(); V_ASSUME(v > 0); return v; }
const char *sqlite3_errmsg(sqlite3 *db) { return vnd_bool() ? "duplicate scalar loop" : "constraint failed"; }

static void merge_down(sqlite3 *db) {          /* pop the top frame into the one below (or make it durable) */
    int d = db->frames[db->level].dirty;
    db->level--;
    if (db->level == 0) db->committed += d; else db->frames[db->level].dirty += d;
}
int sqlite3_exec(sqlite3 *db, const char *sql, int (*cb)(void *, int, char **, char **), void *a, char **e) {
    if (!strcmp(sql, "begin")) {
        if (db->level != 0) return SQLITE_ERROR;                    /* cannot start a transaction within a transaction */
        if (may_fail()) return SQLITE_BUSY;
        db->level = 1; db->frames[1].dirty = 0; db->frames[1].is_savepoint = 0; return SQLITE_OK;
    }
    if (!strcmp(sql, "commit")) {
        if (db->level == 0) return SQLITE_ERROR;                    /* no transaction is active */
        if (may_fail()) return SQLITE_BUSY;                         /* the transaction stays open */
        while (db->level > 0) merge_down(db);
        return SQLITE_OK;
    }
    if (!strcmp(sql, "rollback")) {
        if (db->level == 0) return SQLITE_ERROR;
        db->level = 0; return SQLITE_OK;                            /* everything uncommitted is discarded */
    }
    if (!strcmp(sql, "savepoint s")) {
        if (db->level + 1 >= SENV_MAXLEVEL) { db->overflow = 1; return SQLITE_ERROR; }
        if (may_fail()) return SQLITE_NOMEM;
        db->level++; db->frames[db->level].dirty = 0; db->frames[db->level].is_savepoint = 1; return SQLITE_OK;
    }
    if (!strcmp(sql, "release s")) {
        int l = db->level;
        while (l > 0 && !db->frames[l].is_savepoint) l--;
        if (l == 0) return SQLITE_ERROR;                            /* no such savepoint */
        if (may_fail()) return SQLITE_BUSY;
        while (db->level >= l) merge_down(db);
        return SQLITE_OK;
    }
    if (!strcmp(sql, "rollback to s")) {
        int l = db->level;
        while (l > 0 && !db->frames[l].is_savepoint) l--;
        if (l == 0) return SQLITE_ERROR;
        db->level = l; db->frames[l].dirty = 0; return SQLITE_OK;   /* the savepoint itself remains on the stack */
    }
    /* any other one-shot statement: a modifying statement executed to completion or failing without effect */
    db->other_exec++;
    if (may_fail()) return rc_fail();
    if (db->level == 0) db->committed++; else db->frames[db->level].dirty++;
    return SQLITE_OK;
}

int sqlite3_prepare_v2(sqlite3 *db, const char *sql, int n, sqlite3_stmt **st, const char **tail) {
    sqlite3_stmt *s; int i;
    if (may_fail()) { *st = 0; return SQLITE_NOMEM; }
    s = (sqlite3_stmt *) malloc(sizeof *s); V_MALLOC_OK(s);
    s->db = db; s->sql = sql; s->modifying = (strncmp(sql, "select", 6) != 0); s->state = SENV_READY; s->rows = 0; s->last_rc = 0; s->last_rc_hard = 0;
    for (i = 0; i < SENV_MAXBIND; i++) { s->bound[i] = 0; s->dtor[i] = 0; s->bound_set[i] = 0; s->ival[i] = 0; }
    s->cm = -1;
#ifdef SENV_COLSTORE
    { int k; for (k = 0; k < NCOLMAPS; k++) if (strcmp(sql, COLMAPS[k].sql) == 0) s->cm = k; }
#endif
    for (i = 0; i < SENV_MAXBIND; i++) { s->pv[i].type = 0; s->pv[i].p = 0; s->pv[i].i = 0; s->pv[i].len = 0; }
    db->nstmt++; *st = s; return SQLITE_OK;
}
static void unbind(sqlite3_stmt *s, int i) {
    if (s->bound[i] && s->dtor[i] && s->dtor[i] != SQLITE_STATIC && s->dtor[i] != SQLITE_TRANSIENT) s->dtor[i]((void *) s->bound[i]);
    s->bound[i] = 0; s->dtor[i] = 0; s->bound_set[i] = 0; s->pv[i].type = 0; s->pv[i].p = 0;
}
int sqlite3_finalize(sqlite3_stmt *s) {
    int i;
    if (!s) return SQLITE_OK;
    for (i = 0; i < SENV_MAXBIND; i++) unbind(s, i);
    s->db->nstmt--; s->db->finalized++;
    free(s);                                                        /* a second finalize is a double free under CBMC / ASan */
    return SQLITE_OK;
}
int sqlite3_reset(sqlite3_stmt *s) { int r = s->last_rc_hard ? s->last_rc : SQLITE_OK; s->state = SENV_READY; s->last_rc_hard = 0; s->rows = 0; return r; }
int sqlite3_clear_bindings(sqlite3_stmt *s) { int i; for (i = 0; i < SENV_MAXBIND; i++) unbind(s, i); return SQLITE_OK; }
static int bind_common(sqlite3_stmt *s, int i, const void *p, void (*d)(void *)) {
    if (i < 1 || i >= SENV_MAXBIND) { s->db->misuse = 1; if (p && d && d != SQLITE_STATIC && d != SQLITE_TRANSIENT) d((void *) p); return SQLITE_RANGE; }
    if (s->state != SENV_READY) s->db->misuse = 1;                  /* binding on a statement that has not been reset */
    unbind(s, i);
    if (may_fail()) { if (p && d && d != SQLITE_STATIC && d != SQLITE_TRANSIENT) d((void *) p); return SQLITE_NOMEM; }
    s->bound[i] = p; s->dtor[i] = d; s->bound_set[i] = 1; return SQLITE_OK;
}
int sqlite3_bind_int64(sqlite3_stmt *s, int i, sqlite3_int64 v) { int r = bind_common(s, i, 0, 0); if (r == SQLITE_OK && i < SENV_MAXBIND) { s->ival[i] = v; s->pv[i].type = 1; s->pv[i].i = v; } return r; }
int sqlite3_bind_int(sqlite3_stmt *s, int i, int v) { return sqlite3_bind_int64(s, i, v); }
int sqlite3_bind_double(sqlite3_stmt *s, int i, double v) { int r = bind_common(s, i, 0, 0); if (r == SQLITE_OK) { s->pv[i].type = 4; s->pv[i].d = v; } return r; }
int sqlite3_bind_null(sqlite3_stmt *s, int i) { return bind_common(s, i, 0, 0); }
int sqlite3_bind_text16(sqlite3_stmt *s, int i, const void *t, int n, void (*d)(void *)) { int r = bind_common(s, i, t, d); if (r == SQLITE_OK) { s->pv[i].type = t ? 2 : 0; s->pv[i].p = t; } return r; }
int sqlite3_bind_text(sqlite3_stmt *s, int i, const char *t, int n, void (*d)(void *)) { int r = bind_common(s, i, t, d); if (r == SQLITE_OK) { s->pv[i].type = t ? 3 : 0; s->pv[i].p = t; } return r; }
int sqlite3_bind_blob(sqlite3_stmt *s, int i, const void *t, int n, void (*d)(void *)) { int r = bind_common(s, i, t, d); if (r == SQLITE_OK) { s->pv[i].type = t ? 5 : 0; s->pv[i].p = t; s->pv[i].len = n; } return r; }
int sqlite3_step(sqlite3_stmt *s) {
    int r, i;
    /* SQLITE_STATIC bindings must still be alive now: touch them (a freed buffer is a CBMC / ASan failure) */
    for (i = 1; i < SENV_MAXBIND; i++) if (s->bound[i] && s->dtor[i] == SQLITE_STATIC) { volatile char c = *(const char *) s->bound[i]; (void) c; }
    s->db->steps++;
    if (s->modifying) s->db->last_mod_stmt = s;
    if (senv_step_hook && (r = senv_step_hook(s)) >= 0) { if (r == SQLITE_ROW) { s->state = SENV_ROW; s->db->last_row_stmt = s; } else { s->state = SENV_DONE; s->last_rc = r; s->last_rc_hard = (r != SQLITE_DONE); } return r; }
    if (senv_benign) r = s->modifying ? SQLITE_DONE : ((s->rows++ == 0) ? SQLITE_ROW : SQLITE_DONE);
    else if (senv_fail_mode) r = may_fail() ? rc_fail() : (s->modifying ? SQLITE_DONE : ((s->rows++ == 0) ? SQLITE_ROW : SQLITE_DONE));
    else { r = vnd_int(); V_ASSUME(r == SQLITE_DONE || r == SQLITE_ROW || r == SQLITE_CONSTRAINT || r == SQLITE_BUSY || r == SQLITE_NOMEM || r == SQLITE_ERROR);
           if (s->modifying) V_ASSUME(r != SQLITE_ROW); }
    if (r == SQLITE_ROW) { s->state = SENV_ROW; s->db->last_row_stmt = s; }
    else { s->state = SENV_DONE; s->last_rc = r; s->last_rc_hard = (r != SQLITE_DONE); }
    if (r == SQLITE_DONE && s->modifying) {
        int ch = (senv_benign || senv_fail_mode || strncmp(s->sql, "insert", 6) == 0) ? 1 : vnd_bool();
        s->db->last_changes = ch;
#ifdef SENV_COLSTORE
        if (s->cm >= 0) { int k; for (k = 1; k <= COLMAPS[s->cm].nparam && k < SENV_MAXBIND; k++) { int c = COLMAPS[s->cm].pcol[k]; if (c) senv_row[c] = s->pv[k]; } senv_row_valid = 1; }
#endif
        if (ch) { if (s->db->level == 0) s->db->committed++; else s->db->frames[s->db->level].dirty++; s->db->mods++; }   /* zero rows changed = no modification */
    }
    return r;
}
/* result columns: arbitrary values of the requested type; text = NULL or a short symbolic string owned by the stub */
static UChar coltext[SENV_MAXCOL][SENV_TEXTLEN + 1]; static int colnull[SENV_MAXCOL]; static int hooked, hookbytes;
#ifdef SENV_COLSTORE
static struct senv_binding *rowcol(sqlite3_stmt *s, int c) { if (s->cm < 0 || c < 0 || c >= COLMAPS[s->cm].nres || !senv_row_valid) return 0; return &senv_row[COLMAPS[s->cm].rcol[c]]; }
#endif
int sqlite3_column_int(sqlite3_stmt *s, int c) { int v;
#ifdef SENV_COLSTORE
    { struct senv_binding *b = rowcol(s, c); if (b && COLMAPS[s->cm].rcol[c] >= COL_KIND && COLMAPS[s->cm].rcol[c] <= COL_SCALE) return (b->type == 1) ? (int) b->i : 0; }
#endif
 if (senv_int_hook && senv_int_hook(s, c, &v)) return v; v = vnd_int(); if (s->state != SENV_ROW) s->db->misuse = 1; V_ASSUME(v >= 0 && v <= 5); return v; }
sqlite3_int64 sqlite3_column_int64(sqlite3_stmt *s, int c) { sqlite3_int64 v = vnd_ll(); if (s->state != SENV_ROW) s->db->misuse = 1; V_ASSUME(v >= 1 && v <= 1000); return v; }
const void *sqlite3_column_text16(sqlite3_stmt *s, int c) {
    int i;
#ifdef SENV_COLSTORE
    { struct senv_binding *b = rowcol(s, c); if (b && COLMAPS[s->cm].rcol[c] >= COL_KIND && COLMAPS[s->cm].rcol[c] <= COL_SCALE) { const UChar *t = (b->type == 2) ? (const UChar *) b->p : 0; int n = 0; if (t) while (t[n]) n++; hooked = 1; hookbytes = 2 * n; return t; } }
#endif
    if (senv_text16_hook) { int nb = -1; const void *t = senv_text16_hook(s, c, &nb); if (nb >= 0) { hookbytes = nb; hooked = 1; return t; } }
    hooked = 0;
    if (s->state != SENV_ROW) s->db->misuse = 1;
    if (c < 0 || c >= SENV_MAXCOL) { s->db->misuse = 1; return 0; }
    colnull[c] = (senv_benign || senv_fail_mode) ? 0 : vnd_bool();
    if (colnull[c]) return 0;
    for (i = 0; i < SENV_TEXTLEN; i++) coltext[c][i] = (UChar) ('a' + i);      /* concrete length; harnesses that care overwrite */
    coltext[c][SENV_TEXTLEN] = 0;
    return coltext[c];
}
int sqlite3_column_bytes16(sqlite3_stmt *s, int c) { if (hooked) return hookbytes; return (c >= 0 && c < SENV_MAXCOL && !colnull[c]) ? SENV_TEXTLEN * 2 : 0; }
const unsigned char *sqlite3_column_text(sqlite3_stmt *s, int c) {
#ifdef SENV_COLSTORE
    { struct senv_binding *b = rowcol(s, c); if (b && COLMAPS[s->cm].rcol[c] >= COL_KIND && COLMAPS[s->cm].rcol[c] <= COL_SCALE) { const char *t = (b->type == 3) ? (const char *) b->p : 0; int n = 0; if (t) while (t[n]) n++; hooked = 1; hookbytes = n; return (const unsigned char *) t; } }
#endif
    return (const unsigned char *) sqlite3_column_text16(s, c); }
int sqlite3_column_bytes(sqlite3_stmt *s, int c) { return sqlite3_column_bytes16(s, c); }
const void *sqlite3_column_blob(sqlite3_stmt *s, int c) { return 0; }
double sqlite3_column_double(sqlite3_stmt *s, int c) { return 0.0; }
int sqlite3_column_type(sqlite3_stmt *s, int c) { return SQLITE_NULL; }
sqlite3_stmt *sqlite3_next_stmt(sqlite3 *db, sqlite3_stmt *s) { return 0; }
int sqlite3_close(sqlite3 *db) { db->closed++; return SQLITE_OK; }
