/* Setup-time validation of stubs/ustdio_sink.c (the in-memory model of u_fprintf the writer checks use) against the real
 * ICU formatter (u_sprintf, same conversion engine as u_fprintf) for every format string ciffile.c passes, over a set of
 * argument values (lengths 0..4, texts with quotes, a Latin-1 letter, a surrogate pair).  Exit 0 = model and ICU agree
 * on the characters produced and on the count returned. */
#include <stdio.h>
#include <string.h>
#include <unicode/ustring.h>
#include <unicode/ustdio.h>
static int32_t (*r_u_sprintf)(UChar *, const char *, ...) = u_sprintf;
#undef u_fprintf
#undef u_fputc
#undef u_finit
#undef u_fclose
#undef u_fflush
#define u_fprintf m_fprintf
#define u_fputc m_fputc
#define u_finit m_finit
#define u_fclose m_fclose
#define u_fflush m_fflush
#define SINK_MAX 128
#include "ustdio_sink.c"
static int fails;
static void cmp(const char *what, int32_t n_model, const UChar *real, int32_t n_real) {
    int ok = (n_model == n_real) && (vout_len == n_real) && !sink_badfmt && !sink_overflow && memcmp(vout, real, (size_t) n_real * sizeof(UChar)) == 0;
    if (!ok) { if (fails < 10) printf("MISMATCH %s: model %d units (count %d), ICU %d\n", what, vout_len, n_model, n_real); fails++; }
}
int main(void) {
    static const UChar T[][8] = { { 0 }, { 'a', 0 }, { 'a', 0x27, '"', 0 }, { 0xe9, ';', ' ', 'z', 0 }, { 0xd83d, 0xde00, 'x', 0 } };
    static const char *S[] = { "", "> \\", "\\" };
    UChar real[256]; int i, j, len; int32_t a, b;
    for (i = 0; i < 5; i++) {
        int32_t tl = u_strlen(T[i]);
        vout_len = 0; a = m_fprintf(0, "%S", T[i]); b = r_u_sprintf(real, "%S", T[i]); cmp("%S", a, real, b);
        vout_len = 0; a = m_fprintf(0, " %S\n", T[i]); b = r_u_sprintf(real, " %S\n", T[i]); cmp(" %S\\n", a, real, b);
        vout_len = 0; a = m_fprintf(0, "\ndata_%S\n", T[i]); b = r_u_sprintf(real, "\ndata_%S\n", T[i]); cmp("data_%S", a, real, b);
        vout_len = 0; a = m_fprintf(0, "%c%c%c%S%c%c%c", '"', '"', '"', T[i], '"', '"', '"'); b = r_u_sprintf(real, "%c%c%c%S%c%c%c", '"', '"', '"', T[i], '"', '"', '"'); cmp("triple", a, real, b);
        for (len = 0; len <= tl; len++) {
            vout_len = 0; a = m_fprintf(0, "%*.*S", len, len, T[i]); b = r_u_sprintf(real, "%*.*S", len, len, T[i]); cmp("%*.*S", a, real, b);
            vout_len = 0; a = m_fprintf(0, "%c%*.*S%c", 0x27, len, len, T[i], 0x27); b = r_u_sprintf(real, "%c%*.*S%c", 0x27, len, len, T[i], 0x27); cmp("quoted", a, real, b);
            for (j = 0; j < 3; j++) { vout_len = 0; a = m_fprintf(0, "\n%s%*.*S%s", S[j], len, len, T[i], S[2 - j]); b = r_u_sprintf(real, "\n%s%*.*S%s", S[j], len, len, T[i], S[2 - j]); cmp("fold segment", a, real, b); }
        }
    }
    for (i = 0; i < 3; i++) for (j = 0; j < 3; j++) { vout_len = 0; a = m_fprintf(0, "\n;%s%s", S[i], S[j]); b = r_u_sprintf(real, "\n;%s%s", S[i], S[j]); cmp("text opening", a, real, b); }
    { static const char lit[] = " ]"; for (len = 1; len <= 2; len++) { vout_len = 0; a = m_fprintf(0, "%*.*s", len, len, lit); b = r_u_sprintf(real, "%*.*s", len, len, lit); cmp("%*.*s", a, real, b); } }
    vout_len = 0; a = m_fprintf(0, "\n;"); b = r_u_sprintf(real, "\n;"); cmp("closing", a, real, b);
    vout_len = 0; a = m_fprintf(0, "#\\#CIF_2.0\n"); b = r_u_sprintf(real, "#\\#CIF_2.0\n"); cmp("magic", a, real, b);
    if (fails) { printf("u_fprintf model: %d mismatches\n", fails); return 1; }
    printf("u_fprintf model agrees with ICU's formatter on every format string of ciffile.c\n");
    return 0;
}
