/* verification model of uthash: insertion-ordered doubly linked list, same macro API subset */
#ifndef UTHASH_H
#define UTHASH_H
#include <string.h>
#include <stddef.h>
#include <stdlib.h>
#ifndef uthash_fatal
#define uthash_fatal(msg) exit(-1)
#endif
#ifndef uthash_malloc
#define uthash_malloc(sz) malloc(sz)
#endif
#ifndef uthash_free
#define uthash_free(ptr,sz) free(ptr)
#endif
typedef struct UT_hash_table { unsigned num_items; void *tail; } UT_hash_table;
typedef struct UT_hash_handle { struct UT_hash_table *tbl; void *prev; void *next; void *key; unsigned keylen; } UT_hash_handle;
#define UTM_T(head) __typeof__(head)
#define HASH_COUNT(head) ((head) ? ((head)->hh.tbl->num_items) : 0U)
#define HASH_FIND(hh,head,keyptr,keylen_in,out) do { \
  (out) = (head); \
  while ((out) != NULL) { \
    if ((out)->hh.keylen == (unsigned)(keylen_in) && memcmp((out)->hh.key, (keyptr), (size_t)(keylen_in)) == 0) break; \
    (out) = (UTM_T(out))((out)->hh.next); \
  } } while (0)
#define HASH_ADD_KEYPTR(hh,head,keyptr,keylen_in,add) do { \
  (add)->hh.next = NULL; (add)->hh.key = (void *)(keyptr); (add)->hh.keylen = (unsigned)(keylen_in); \
  if ((head) == NULL) { \
    (add)->hh.tbl = (UT_hash_table *) uthash_malloc(sizeof(UT_hash_table)); \
    if ((add)->hh.tbl == NULL) { uthash_fatal("out of memory"); } \
    (add)->hh.tbl->num_items = 0U; (add)->hh.tbl->tail = NULL; (add)->hh.prev = NULL; (head) = (add); \
  } else { \
    (add)->hh.tbl = (head)->hh.tbl; (add)->hh.prev = (head)->hh.tbl->tail; \
    ((UTM_T(head))((head)->hh.tbl->tail))->hh.next = (add); \
  } \
  (head)->hh.tbl->tail = (add); (head)->hh.tbl->num_items += 1U; } while (0)
#define HASH_DEL(head,delptr) do { \
  UT_hash_table *_tbl = (head)->hh.tbl; \
  UTM_T(head) _prev = (UTM_T(head))((delptr)->hh.prev); UTM_T(head) _next = (UTM_T(head))((delptr)->hh.next); \
  if (_prev != NULL) { _prev->hh.next = _next; } \
  if (_next != NULL) { _next->hh.prev = _prev; } \
  if (_tbl->tail == (void *)(delptr)) { _tbl->tail = _prev; } \
  _tbl->num_items -= 1U; \
  if ((head) == (delptr)) { (head) = _next; } \
  if (_tbl->num_items == 0U) { uthash_free(_tbl, sizeof(UT_hash_table)); (head) = NULL; } \
  } while (0)
#define HASH_ITER(hh,head,el,tmp) \
  for ((el) = (head), (tmp) = (UTM_T(el))((head) != NULL ? (head)->hh.next : NULL); (el) != NULL; \
       (el) = (tmp), (tmp) = (UTM_T(el))((tmp) != NULL ? (tmp)->hh.next : NULL))
#endif
