#include <unicode/ustring.h>
#include <unicode/unorm.h>
/* identity normalization / ASCII lower-case fold with ICU buffer protocol.
 * With -DNORM_SINGLETONS the two length-preserving singleton mappings every Unicode normalisation form applies,
 * U+212B ANGSTROM SIGN -> U+00C5 and U+2126 OHM SIGN -> U+03A9, are modelled as well (true of the real ICU), so that a
 * harness can use a key whose normalised form differs from the spelling entered. */
int32_t unorm_normalize(const UChar *src,int32_t len,UNormalizationMode mode,int32_t opt,UChar *dst,int32_t cap,UErrorCode *st){
  int32_t i; if(len<0){ len=0; while(src[len]) len++; }
  if(len>cap){ *st=U_BUFFER_OVERFLOW_ERROR; return len; }
#ifdef NORM_SINGLETONS
  for(i=0;i<len;i++) dst[i]=(src[i]==0x212B)? 0x00C5 : ((src[i]==0x2126)? 0x03A9 : src[i]);
#else
  for(i=0;i<len;i++) dst[i]=src[i];
#endif
  if(len<cap) dst[len]=0; else *st=U_STRING_NOT_TERMINATED_WARNING;
  return len; }
int32_t u_strFoldCase(UChar *dst,int32_t cap,const UChar *src,int32_t len,uint32_t opt,UErrorCode *st){
  int32_t i; if(len<0){ len=0; while(src[len]) len++; }
  if(len>cap){ *st=U_BUFFER_OVERFLOW_ERROR; return len; }
  for(i=0;i<len;i++) dst[i]=(src[i]>='A'&&src[i]<='Z')? src[i]+32 : src[i];
  if(len<cap) dst[len]=0; else *st=U_STRING_NOT_TERMINATED_WARNING;
  return len; }
