/* Loop-based byte models of memcpy / realloc for CBMC builds (not used in native replays).
 * CBMC's built-in models turn a copy of symbolic size into whole-array operations that exhausted memory here; a bounded
 * byte loop with unwinding assertions is exact for every size within the unwind bound. */
#include <stdlib.h>
void *memcpy(void *d, const void *s, size_t n) { char *dd = (char *) d; const char *ss = (const char *) s; size_t i; for (i = 0; i < n; i++) dd[i] = ss[i]; return d; }
void *realloc(void *p, size_t n) {
    char *q = (char *) malloc(n); size_t i, old;
    __CPROVER_assume(q != 0);
    if (p) { old = __CPROVER_OBJECT_SIZE(p); for (i = 0; i < n && i < old; i++) q[i] = ((char *) p)[i]; free(p); }
    return q;
}
