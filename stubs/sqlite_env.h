#ifndef SQLITE_ENV_H
#define SQLITE_ENV_H
#include <sqlite3.h>
#include <unicode/ustring.h>
#define SENV_MAXLEVEL 6
#define SENV_MAXBIND 16
#define SENV_MAXCOL 12
#define SENV_TEXTLEN 2
#define SENV_READY 0
#define SENV_ROW 1
#define SENV_DONE 2
struct senv_frame { int dirty; int is_savepoint; };
struct sqlite3 { int level; struct senv_frame frames[SENV_MAXLEVEL]; int committed; int mods; int steps; int other_exec; int nstmt; int finalized; int misuse; int overflow; int closed; int last_changes; struct sqlite3_stmt *last_row_stmt; struct sqlite3_stmt *last_mod_stmt; };
struct senv_binding { int type; long long i; const void *p; int len; double d; };   /* type: 0 unset/null, 1 int, 2 text16, 3 text, 4 double, 5 blob */
struct sqlite3_stmt { int cm; struct senv_binding pv[SENV_MAXBIND]; struct sqlite3 *db; const char *sql; int modifying; int state; int rows; int last_rc; int last_rc_hard;
                      const void *bound[SENV_MAXBIND]; void (*dtor[SENV_MAXBIND])(void *); int bound_set[SENV_MAXBIND]; sqlite3_int64 ival[SENV_MAXBIND]; };
extern int senv_benign, senv_fail_mode, senv_fail_at, senv_calls;
extern int (*senv_step_hook)(sqlite3_stmt *s);
extern int (*senv_int_hook)(sqlite3_stmt *s, int col, int *out);
extern const void *(*senv_text16_hook)(sqlite3_stmt *s, int col, int *bytes);
/* column store (compiled with -DSENV_COLSTORE): the last row written by a mapped insert/update, by column id */
extern struct senv_binding senv_row[32]; extern int senv_row_valid;
#endif
