#include <stdio.h>
#include <stdlib.h>
#include <string.h>
#include <unicode/ustring.h>
#include "cif.h"
int main(void) {
    int len, bad = 0;
    for (len = 2000; len <= 2046; len++) {
        cif_tp *cif = NULL; cif_block_tp *b = NULL; cif_value_tp *t = NULL, *e = NULL; UChar code[2] = {'b',0}, name[3] = {'_','t',0};
        UChar *key = malloc((len + 1) * sizeof(UChar)); int i, rc; FILE *f = tmpfile();
        for (i = 0; i < len; i++) key[i] = 'k'; key[1] = '\''; key[3] = '"'; key[len] = 0;
        cif_create(&cif); cif_create_block(cif, code, &b);
        cif_value_create(CIF_TABLE_KIND, &t); cif_value_create(CIF_UNK_KIND, &e);
        rc = cif_value_set_item_by_key(t, key, e); if (rc) { printf("set_item rc=%d\n", rc); return 2; }
        rc = cif_container_set_value(b, name, t); if (rc) { printf("set_value rc=%d\n", rc); return 2; }
        rc = cif_write(f, NULL, cif);
        if (rc != CIF_OK && rc != CIF_DISALLOWED_VALUE) { printf("key length %d: cif_write returned %d\n", len, rc); bad++; }
        else if (len >= 2036) printf("key length %d: rc=%d\n", len, rc);
        fclose(f); cif_value_free(t); cif_value_free(e); cif_container_free(b); cif_destroy(cif); free(key);
    }
    printf(bad ? "VIOLATED (%d)\n" : "holds\n", bad); return bad != 0;
}
