#include <stdio.h>
#include <stdlib.h>
#include <unicode/ustring.h>
#include "cif.h"
int main(void) {
    cif_tp *cif = NULL; cif_block_tp *b = NULL; cif_loop_tp *sl = NULL, **all = NULL; cif_value_tp *v = NULL; int rc, n = 0, nscalar = 0, i;
    UChar code[2] = {'b',0}, n1[3] = {'_','a',0}, n2[3] = {'_','c',0}, empty[1] = {0};
    cif_create(&cif); cif_create_block(cif, code, &b); cif_value_create(CIF_NA_KIND, &v);
    cif_container_set_value(b, n1, v);
    rc = cif_container_get_category_loop(b, empty, &sl); if (rc) { printf("no scalar loop rc=%d\n", rc); return 2; }
    rc = cif_loop_set_category(sl, NULL);
    printf("cif_loop_set_category(scalar loop, NULL) = %d (CIF_RESERVED_LOOP = %d)\n", rc, CIF_RESERVED_LOOP);
    cif_container_set_value(b, n2, v);
    cif_container_get_all_loops(b, &all); for (i = 0; all[i]; i++) { n++; cif_loop_free(all[i]); } free(all);
    printf("loops in the block after adding a second scalar: %d\n", n);
    cif_loop_free(sl); cif_value_free(v); cif_container_free(b); cif_destroy(cif);
    if (rc != CIF_RESERVED_LOOP || n != 1) { printf("VIOLATED\n"); return 1; } printf("holds\n"); return 0;
}
