#include <stdio.h>
#include <stdlib.h>
#include <unicode/ustring.h>
#include "cif.h"
static int after;  static int stopped;
static int pkt(cif_packet_tp *p, void *c) { if (stopped) after++; stopped = 1; return 1; }   /* positive code 1 */
static int lend(cif_loop_tp *l, void *c) { if (stopped) after++; return CIF_TRAVERSE_CONTINUE; }
static int bend(cif_container_tp *b, void *c) { if (stopped) after++; return CIF_TRAVERSE_CONTINUE; }
int main(void) {
    cif_tp *cif = NULL; cif_block_tp *b = NULL; cif_value_tp *v = NULL; int rc; cif_handler_tp h = {0};
    UChar code[2] = {'b',0}, n1[3] = {'_','a',0};
    cif_create(&cif); cif_create_block(cif, code, &b); cif_value_create(CIF_NA_KIND, &v); cif_container_set_value(b, n1, v);
    h.handle_packet_start = pkt; h.handle_loop_end = lend; h.handle_block_end = bend;
    rc = cif_walk(cif, &h, NULL);
    printf("cif_walk returned %d after a packet handler answered 1; callbacks delivered afterwards: %d\n", rc, after);
    cif_value_free(v); cif_container_free(b); cif_destroy(cif);
    if (rc != 1 || after) { printf("VIOLATED\n"); return 1; } printf("holds\n"); return 0;
}
