#include <stdio.h>
#include <stdlib.h>
#include <unicode/ustring.h>
#include "cif.h"
int main(void) {
    UChar a[3] = {'_','a',0}, A[3] = {'_','A',0}; UChar *names[2] = { a, NULL };
    cif_packet_tp *p = NULL; cif_value_tp *v = NULL, *got = NULL; const UChar **out = NULL; int rc;
    rc = cif_packet_create(&p, names); if (rc) return 2;
    cif_value_create(CIF_NA_KIND, &v);
    rc = cif_packet_set_item(p, A, v); printf("set_item rc=%d\n", rc);
    rc = cif_packet_get_item(p, a, &got); printf("get_item rc=%d kind=%d\n", rc, got ? cif_value_kind(got) : -1);
    rc = cif_packet_get_names(p, &out); printf("names rc=%d first=%c%c\n", rc, out[0][0], out[0][1]); free(out);
    cif_value_free(v); cif_packet_free(p); printf("holds\n"); return 0;
}
