#!/usr/bin/env python3
"""usage: save_seed.py <worktree name under /tmp/mut> <seed id> <caught_by> <note>  -- copies patch/demo/meta into /verif/seeded/<id>/"""
import json, os, shutil, sys
name, sid, caught, note = sys.argv[1:5]
src = "/tmp/mut/%s/OUT" % name; dst = "/verif/seeded/%s" % sid
os.makedirs(dst, exist_ok=True)
for f in ("patch.diff", "demo.c", "build_run.sh"):
    if os.path.exists(os.path.join(src, f)):
        shutil.copy(os.path.join(src, f), dst)
m = json.load(open(os.path.join(src, "meta.json")))
m["confirmed_by_framework_author"] = "lib/confirm_seed.sh in the scratch worktree: test suite 74/74 with the change; demo exits non-zero with the change and 0 with it reverted"
m["detected_by"] = caught
m["detection_note"] = note
m["how_to_run"] = "git -C /repo apply /verif/seeded/%s/patch.diff && (cd /verif && bin/check %s --tier quick); git -C /repo checkout -- ." % (sid, m.get("property", "?"))
json.dump(m, open(os.path.join(dst, "meta.json"), "w"), indent=1)
print("saved", dst)
