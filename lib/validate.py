import json,jsonschema,glob,sys
jsonschema.validate(json.load(open('/verif/MANIFEST.json')), json.load(open('/root/.vp/MANIFEST.schema.json')))
for f in glob.glob('/verif/evidence/*.json'):
    jsonschema.validate(json.load(open(f)), json.load(open('/root/.vp/EVIDENCE.schema.json')))
print('valid')
