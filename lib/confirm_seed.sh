#!/bin/sh
# usage: lib/confirm_seed.sh <worktree> : re-verifies a seeded change independently of its author:
#  (1) with the change (OUT/patch.diff applied to a clean checkout): test suite 74/74, demo fails;
#  (2) change reverted: demo passes.  Prints a one-line summary.  (No git stash: the stash is shared between worktrees.)
W=$1; cd $W || exit 9
CMD=$(python3 -c "import json;print(json.load(open('OUT/meta.json'))['demo_cmd'])")
git checkout -q -- src && git apply OUT/patch.diff || { echo "worktree=$W patch does not apply to a clean checkout"; exit 8; }
make > /dev/null 2>&1; T=$(make -k check 2>&1 | grep -E "^# (PASS|FAIL|ERROR):" | tr -s ' ' | tr '\n' ' ')
( eval "$CMD" ) > OUT/confirm_with.log 2>&1; RC_WITH=$?
git apply -R OUT/patch.diff; ( eval "$CMD" ) > OUT/confirm_without.log 2>&1; RC_WITHOUT=$?; git apply OUT/patch.diff
echo "worktree=$W tests_with_change=[$T] demo_with_change_exit=$RC_WITH demo_without_change_exit=$RC_WITHOUT"
