#!/usr/bin/env python3
"""Driver for the solver-based checks of cif_api (see /verif/DESIGN.md, section 2).

    bin/check <ID> [--tier quick|thorough] [--only <query-name-substring>] [--keep] [--jobs N]
    bin/check --replay <dir>

Pipeline per query:  goto-cc (from /repo's *current* tree)  ->  [goto-instrument --remove-function-body]
 ->  cbmc --json-ui (unwinding assertions always on)  ->  per-property verdicts
 ->  on a failed harness/library assertion: cbmc --trace -> replay script -> native ASan/UBSan replay
 ->  VIOLATION only if the native replay reproduces.
Exit codes: 0 held within bounds; 1 VIOLATION (replayed); 2 inconclusive/broken (timeout, vacuous harness,
unwinding bound too small, build error); 3 encoding mismatch (counterexample did not reproduce natively).
"""
import argparse, concurrent.futures as cf, hashlib, json, os, re, resource, shutil, signal, subprocess, sys, tempfile, time

VERIF = os.path.dirname(os.path.dirname(os.path.abspath(__file__)))
REPO = os.environ.get("VERIF_REPO", "/repo")
sys.path.insert(0, os.path.join(VERIF, "lib"))

BASE_INC = ["-I" + REPO, "-I" + os.path.join(REPO, "src"), "-I" + os.path.join(VERIF, "stubs")]
BASE_DEF = ["-DHAVE_CONFIG_H", "-DCIF_API_VERIF"]
UTHASH_MODEL = "-I" + os.path.join(VERIF, "stubs", "uthash_model")
UTHASH_REAL = "-I" + os.path.join(REPO, "uthash")


class Q:
    """One solver query (one harness instance)."""

    def __init__(self, name, harness, defs=None, extra=(), libtus=(), remove=(), unwind=2, unwindset=(),
                 mode="func", flags=(), timeout=None, mem_gb=None, uthash="model", note="", bounds=None,
                 replay=True, replay_libs=(), native_extra=None, kf=(), object_bits=None, group=None, std="gnu99",
                 native_only_defs=None, stubs_note=(), gen=None, lib_defs=None):
        self.name = name
        self.harness = harness
        self.defs = dict(defs or {})
        self.extra = list(extra)          # additional C files (stubs), relative to /verif
        self.libtus = list(libtus)        # repo TUs linked as separate objects with exported file-local symbols
        self.remove = list(remove)        # (tu, function) bodies removed and replaced by harness stubs
        self.unwind = unwind
        self.unwindset = list(unwindset)
        self.mode = mode                  # 'func' (harness assertions only) | 'safety' (CBMC standard checks too)
        self.flags = list(flags)
        self.timeout = timeout
        self.mem_gb = mem_gb
        self.uthash = uthash
        self.note = note
        self.bounds = bounds or {}
        self.replay = replay
        self.replay_libs = list(replay_libs)
        self.native_extra = None if native_extra is None else list(native_extra)   # native-only replacements for CBMC-only stubs
        self.kf = list(kf)                # known-finding ids whose region this query can exhibit
        self.object_bits = object_bits
        self.group = group or harness
        self.std = std
        self.stubs_note = list(stubs_note)
        self.lib_defs = dict(lib_defs or {})   # extra -D for the repo TUs only (e.g. malloc renaming)
        self.gen = gen                    # callable(dir): writes generated headers (from /repo's current tree) into dir


def sh(cmd, timeout=None, mem_gb=None, cwd=None, env=None):
    def lim():
        os.setsid()
        if mem_gb:
            b = int(mem_gb * (1 << 30))
            resource.setrlimit(resource.RLIMIT_AS, (b, b))
    t0 = time.time()
    p = subprocess.Popen(cmd, stdout=subprocess.PIPE, stderr=subprocess.PIPE, cwd=cwd, env=env, preexec_fn=lim)
    try:
        out, err = p.communicate(timeout=timeout)
        to = False
    except subprocess.TimeoutExpired:
        try:
            os.killpg(p.pid, signal.SIGKILL)
        except ProcessLookupError:
            pass
        out, err = p.communicate()
        to = True
    ru = resource.getrusage(resource.RUSAGE_CHILDREN)
    return p.returncode, out.decode("utf-8", "replace"), err.decode("utf-8", "replace"), to, time.time() - t0


def repo_file_hashes(files):
    h = {}
    for f in files:
        p = os.path.join(REPO, "src", f)
        if os.path.exists(p):
            h[f] = hashlib.sha256(open(p, "rb").read()).hexdigest()[:16]
    return h


def define_flags(defs):
    out = []
    for k, v in defs.items():
        out.append("-D%s" % k if v is None or v is True else "-D%s=%s" % (k, v))
    return out


def build(q, wd, kf_excluded):
    """goto-cc everything for q into wd/q.goto.  Returns (ok, log)."""
    inc = BASE_INC + ([UTHASH_MODEL] if q.uthash == "model" else []) + [UTHASH_REAL, "-I" + wd]
    defs = BASE_DEF + define_flags(q.defs) + ["-DKF_EXCLUDE_%s" % k for k in kf_excluded]
    objs = []
    log = []
    if q.gen:
        q.gen(wd)
    for tu in q.libtus:
        o = os.path.join(wd, tu.replace("/", "_") + ".o")
        cmd = ["goto-cc", "-std=c89", "-c", "--export-file-local-symbols", "-o", o, os.path.join(REPO, "src", tu)] + inc + defs + define_flags(q.lib_defs)
        rc, out, err, to, _ = sh(cmd, timeout=120)
        log.append(" ".join(cmd)); log.append(err[-2000:])
        if rc != 0:
            return False, "\n".join(log)
        for (rtu, fn) in q.remove:
            if rtu == tu:
                rc, out, err, to, _ = sh(["goto-instrument", "--remove-function-body", fn, o, o], timeout=120)
                if rc != 0:
                    log.append(out[-2000:] + err[-2000:])
                    return False, "\n".join(log)
        objs.append(o)
    srcs = [os.path.join(VERIF, "harness", q.harness)] + [os.path.join(VERIF, e) for e in q.extra]
    for i, s in enumerate(srcs):
        o = os.path.join(wd, "h%d.o" % i)
        cmd = ["goto-cc", "-std=" + q.std, "-c", "-o", o, s] + inc + defs
        rc, out, err, to, _ = sh(cmd, timeout=180)
        log.append(" ".join(cmd)); log.append(err[-3000:])
        if rc != 0:
            return False, "\n".join(log)
        objs.append(o)
    g = os.path.join(wd, "q.goto")
    rc, out, err, to, _ = sh(["goto-cc", "-o", g] + objs, timeout=180)
    log.append(err[-3000:])
    if rc != 0:
        return False, "\n".join(log)
    return True, "\n".join(log)


def loop_table(wd):
    rc, out, err, to, _ = sh(["goto-instrument", "--show-loops", os.path.join(wd, "q.goto")], timeout=120)
    loops = []
    for m in re.finditer(r"^Loop (\S+):\n\s+file (\S+) line (\d+) function (\S+)", out, re.M):
        loops.append((m.group(1), os.path.basename(m.group(2)), int(m.group(3)), m.group(4)))
    return loops


def resolve_unwindset(q, wd):
    """Entries: 'loopid:N' | '@file.c:LINE:N' (loop at that source line) | '~file.c~text:N' (loop on a line containing text) | 'func.*:N' (all loops of func;
    also matches the file-local mangled name) | recursion bounds 'func:N' pass through."""
    if not any(e.startswith("@") or e.startswith("~") or ".*:" in e or re.match(r"^[A-Za-z_]\w*:\d+$", e) for e in q.unwindset):
        return list(q.unwindset)
    loops = loop_table(wd)
    rc, fout, err, to, _ = sh(["goto-instrument", "--list-goto-functions", os.path.join(wd, "q.goto")], timeout=120)
    funcs = set(re.findall(r"/\* ([A-Za-z_$][\w$]*)(?:,| \*/)", fout))
    out = []
    for e in q.unwindset:
        if re.match(r"^[A-Za-z_]\w*:\d+$", e):
            # recursion bound: keep only for functions that exist in this binary (also try the file-local mangled name)
            fn, n = e.split(":")
            if fn in funcs:
                out.append(e)
            else:
                out += ["%s:%s" % (f, n) for f in funcs if f.startswith("__CPROVER_file_local_") and f.endswith("_c_" + fn)]
        elif e.startswith("~"):
            # '~file.c~source text:N': the loop(s) whose head is on a line of the current /repo/src/file.c containing that text
            f, rest = e[1:].split("~", 1)
            text, n = rest.rsplit(":", 1)
            lines = [i + 1 for i, l in enumerate(open(os.path.join(REPO, "src", f)).read().split("\n")) if text in l]
            hit = [l for l in loops if l[1] == f and l[2] in lines]
            out += ["%s:%s" % (l[0], n) for l in hit]      # no hit (the loop was rewritten): the global bound and its unwinding assertion apply
        elif e.startswith("@"):
            f, line, n = e[1:].rsplit(":", 2)
            hit = [l for l in loops if l[1] == f and l[2] == int(line)]
            if not hit:
                raise RuntimeError("unwindset: no loop at %s:%s" % (f, line))
            out += ["%s:%s" % (l[0], n) for l in hit]
        elif ".*:" in e:
            fn, n = e.split(".*:")
            hit = [l for l in loops if l[3] == fn or re.match(re.escape(fn) + r"_\d+$", l[3])
                   or l[3].endswith("_" + fn) and l[3].startswith("__CPROVER_file_local")]
            out += ["%s:%s" % (l[0], n) for l in hit]
            if not hit and fn in ("strcmp", "strncmp", "memcmp", "strlen", "memset", "memchr", "strchr", "strcpy", "strncpy", "strdup"):
                out.append("%s.0:%s" % (fn, n))      # CPROVER library function: linked in by cbmc itself, not yet in the binary
        else:
            out.append(e)
    return out


def cbmc_cmd(q, wd, trace_prop=None):
    cmd = ["cbmc", os.path.join(wd, "q.goto"), "--function", "harness", "--json-ui", "--verbosity", "8",
           "--unwind", str(q.unwind), "--unwinding-assertions", "--drop-unused-functions"]
    if q.unwindset:
        cmd += ["--unwindset", ",".join(resolve_unwindset(q, wd))]
    if q.mode == "func":
        cmd += ["--no-standard-checks", "--slice-formula"]
    else:
        cmd += ["--signed-overflow-check", "--undefined-shift-check", "--memory-leak-check", "--no-malloc-may-fail",
                "--malloc-fail-null"]
    if q.mode == "func":
        cmd += ["--no-malloc-may-fail"]
    if q.object_bits:
        cmd += ["--object-bits", str(q.object_bits)]
    cmd += q.flags
    if trace_prop:
        cmd += ["--trace", "--property", trace_prop]
    return cmd


def parse_cbmc_json(out):
    """Returns (results list, stats dict, errors list)."""
    try:
        data = json.loads(out)
    except Exception as e:
        return None, {}, ["unparseable cbmc output: %s" % e]
    results, stats, errors = None, {}, []
    for m in data:
        if not isinstance(m, dict):
            continue
        if "result" in m:
            results = m["result"]
        if m.get("messageType") == "ERROR":
            errors.append(m.get("messageText", ""))
        t = m.get("messageText", "")
        if isinstance(t, str):
            mm = re.search(r"Generated (\d+) VCC\(s\), (\d+) remaining", t)
            if mm:
                stats["vccs"] = int(mm.group(1)); stats["vccs_remaining"] = int(mm.group(2))
            mm = re.search(r"(\d+) variables, (\d+) clauses", t)
            if mm:
                stats["sat_vars"] = int(mm.group(1)); stats["sat_clauses"] = int(mm.group(2))
            mm = re.search(r"size of program expression: (\d+) steps", t)
            if mm:
                stats["ssa_steps"] = int(mm.group(1))
            mm = re.search(r"Runtime Symex: ([\d.e+-]+)s", t)
            if mm:
                stats["symex_s"] = float(mm.group(1))
            mm = re.search(r"Runtime Solver: ([\d.e+-]+)s", t)
            if mm:
                stats["solver_s"] = stats.get("solver_s", 0) + float(mm.group(1))
            mm = re.search(r"Runtime decision procedure: ([\d.e+-]+)s", t)
            if mm:
                stats["decision_s"] = stats.get("decision_s", 0) + float(mm.group(1))
        if "cProverStatus" in m:
            stats["status"] = m["cProverStatus"]
    return results, stats, errors


def classify(results):
    """Split property results into witness / unwind / real failures."""
    wit_ok, wit_bad, unwind_fail, fails, n_ok = [], [], [], [], 0
    for r in results:
        desc = r.get("description", "")
        pid = r.get("property", "")
        st = r.get("status")
        if desc.startswith("WITNESS?"):
            if st == "FAILURE":
                wit_ok.append(desc)
        elif desc.startswith("WITNESS"):
            (wit_ok if st == "FAILURE" else wit_bad).append(desc)
        elif ".unwind." in pid or ".recursion" in pid or "unwinding assertion" in desc or "recursion unwinding" in desc:
            if st == "FAILURE":
                unwind_fail.append(pid + " " + desc)
            else:
                n_ok += 1
        else:
            if st == "FAILURE":
                fails.append(r)
            elif st == "SUCCESS":
                n_ok += 1
            else:
                fails.append(r)
    return wit_ok, wit_bad, unwind_fail, fails, n_ok


VND_RE = re.compile(r"^goto_symex\$\$return_value\$\$vnd_(int|uint|u16|u8|ll|size)(\$.*)?$")


def value_of(step):
    v = step.get("value", {})
    d = v.get("data")
    if d is None:
        return 0
    d = str(d).rstrip("ulUL")
    try:
        return int(d)
    except ValueError:
        b = v.get("binary")
        if b:
            n = int(b, 2)
            if v.get("type", "").startswith("signed") or v.get("name") == "integer" and b[0] == "1" and "unsigned" not in v.get("type", "unsigned"):
                n -= 1 << len(b)
            return n
        return 0


def extract_script(trace):
    script = []
    for s in trace:
        if s.get("stepType") != "assignment":
            continue
        m = VND_RE.match(s.get("lhs", ""))
        if m:
            script.append((m.group(1), value_of(s)))
    return script


def strip_function_body(src, fn):
    """Remove the body of the definition of fn in C source text (native twin of --remove-function-body)."""
    m = re.search(r"^(static\s+)?[A-Za-z_][\w\s\*]*?\b%s\s*\([^;{]*\)\s*\{" % re.escape(fn), src, re.M)
    if not m:
        return src
    i = m.end() - 1
    depth, j = 0, i
    while j < len(src):
        if src[j] == "{":
            depth += 1
        elif src[j] == "}":
            depth -= 1
            if depth == 0:
                break
        j += 1
    # keep a forward declaration in place of the definition
    head = src[m.start():i].strip()
    return src[:m.start()] + head + ";\n" + src[j + 1:]


def native_replay(q, script, rdir, kf_excluded, hang_only=False):
    """Build the same harness natively with ASan/UBSan and run it on the script."""
    os.makedirs(rdir, exist_ok=True)
    with open(os.path.join(rdir, "script.txt"), "w") as f:
        for k, v in script:
            f.write("%s %d\n" % (k, v))
    inc = BASE_INC + ([UTHASH_MODEL] if q.uthash == "model" else []) + [UTHASH_REAL, "-I" + rdir]
    if q.gen:
        q.gen(rdir)
    defs = BASE_DEF + define_flags(q.defs) + ["-DVERIF_REPLAY"] + ["-DKF_EXCLUDE_%s" % k for k in kf_excluded]
    # a wrapper TU that pulls in the lib TUs with statics visible, bodies of replaced functions stripped
    wrapper = os.path.join(rdir, "replay_main.c")
    with open(wrapper, "w") as w:
        w.write("/* generated by lib/driver.py: native replay of %s */\n" % q.name)
        for tu in q.libtus:
            src = open(os.path.join(REPO, "src", tu)).read()
            if q.lib_defs:
                src = ("#include <stdlib.h>\n#include <string.h>\nvoid *vf_malloc(size_t); void *vf_calloc(size_t, size_t); "
                       "void *vf_realloc(void *, size_t); char *vf_strdup(const char *);\n"
                       + "".join("#undef %s\n#define %s %s\n" % (k, k, v) for k, v in q.lib_defs.items()) + src)
            base = os.path.basename(tu).replace(".", "_")
            for (rtu, fn) in q.remove:
                if rtu == tu:
                    short = fn.replace("__CPROVER_file_local_%s_" % base, "")
                    src = strip_function_body(src, short)
            # un-mangle file-local names used by the harness
            p = os.path.join(rdir, "native_" + os.path.basename(tu))
            open(p, "w").write(src)
            w.write('#include "%s"\n' % p)
        w.write('#include "%s"\n' % os.path.join(VERIF, "harness", q.harness))
        w.write("int main(void) { harness(); printf(\"REPLAY-COMPLETED\\n\"); return 0; }\n")
    unmangle = []
    for tu in q.libtus:
        base = os.path.basename(tu).replace(".", "_")
        src = open(os.path.join(REPO, "src", tu)).read()
        for fn in set(re.findall(r"^static\s+[^;{=]*?\b(\w+)\s*\(", src, re.M)):
            unmangle.append("-D__CPROVER_file_local_%s_%s=%s" % (base, fn, fn))
    exe = os.path.join(rdir, "replay")
    natives = [os.path.join(VERIF, e) for e in (q.native_extra if q.native_extra is not None else q.extra)]
    # the rest of the library (TUs neither #included by the harness nor linked as libtus), so internal symbols resolve
    hsrc = open(os.path.join(VERIF, "harness", q.harness)).read()
    included = set(re.findall(r'#include\s+"(\w+\.c)"', hsrc)) | set(q.libtus)
    for tu in sorted(os.listdir(os.path.join(REPO, "src"))):
        if tu.endswith(".c") and tu not in included:
            natives.append(os.path.join(REPO, "src", tu))
    cmd = (["gcc", "-std=" + q.std, "-g", "-O0", "-w", "-fsanitize=address,undefined", "-fno-sanitize-recover=undefined", "-ffunction-sections", "-Wl,--gc-sections", "-Wl,--unresolved-symbols=ignore-all", "-Wl,--allow-multiple-definition",
            "-o", exe, wrapper] + natives + inc + defs + unmangle + q.replay_libs + ["-lm"])
    with open(os.path.join(rdir, "build.sh"), "w") as f:
        f.write("#!/bin/sh\n" + " ".join("'%s'" % c for c in cmd) + "\n")
    rc, out, err, to, _ = sh(cmd, timeout=300)
    if rc != 0:
        open(os.path.join(rdir, "build.log"), "w").write(out + err)
        return "build-failed", err[-3000:]
    env = dict(os.environ)
    env["VND_SCRIPT"] = os.path.join(rdir, "script.txt")
    env["ASAN_OPTIONS"] = "detect_leaks=1:abort_on_error=0"
    rc, out, err, to, _ = sh([exe], timeout=30 if hang_only else 120, env=env)
    open(os.path.join(rdir, "replay.log"), "w").write("exit=%s\n%s\n%s" % (rc, out, err))
    with open(os.path.join(rdir, "run.sh"), "w") as f:
        f.write("#!/bin/sh\nVND_SCRIPT=%s ASAN_OPTIONS=detect_leaks=1 %s\n" % (env["VND_SCRIPT"], exe))
    if to:
        return "confirmed", "native replay did not terminate"
    if hang_only and rc in (0, 77, 78, 79):
        return "not-reproduced", out[-500:]
    if rc == 0:
        return "not-reproduced", out[-2000:]
    if rc == 77:
        return "assume-violated", out[-2000:]
    if rc in (78, 79):
        return "script-error", out[-2000:]
    txt = out + err
    if rc in (126, 127) or "error while loading shared libraries" in txt:
        return "build-failed", txt[-2000:]
    if not (rc < 0 or any(m in txt for m in ("REPLAY-ASSERT-FAILED", "AddressSanitizer", "LeakSanitizer", "runtime error:", "Assertion"))):
        return "script-error", txt[-2000:]
    return "confirmed", txt[-3000:]


def run_query(q, tier, workroot, kf_open, keep=False):
    """Returns a result dict."""
    res = {"name": q.name, "harness": q.harness, "defs": q.defs, "mode": q.mode, "bounds": q.bounds, "note": q.note,
           "unwind": q.unwind, "unwindset": q.unwindset, "libtus": q.libtus, "removed_bodies": [f for _, f in q.remove],
           "verdict": None, "t_total": 0.0}
    t0 = time.time()
    wd = tempfile.mkdtemp(prefix="q_", dir=workroot)
    try:
        kf_excl = [k for k in q.kf if k in kf_open]
        ok, log = build(q, wd, kf_excl)
        if not ok:
            res.update(verdict="build-error", detail=log[-4000:])
            return res
        # caps are generous on purpose: a query that normally takes a minute must not turn into an INCONCLUSIVE (exit 2)
        # merely because the machine is shared with other checks; VERIF_TIMEOUT_SCALE stretches them further
        scale = float(os.environ.get("VERIF_TIMEOUT_SCALE", "1"))
        timeout = int(max(q.timeout or 0, 900 if tier == "quick" else 3600) * scale)
        mem = max(q.mem_gb or 0, 6 if tier == "quick" else 10)
        cmd = cbmc_cmd(q, wd)
        res["cmd"] = " ".join(cmd[2:])
        rc, out, err, to, dt = sh(cmd, timeout=timeout, mem_gb=mem)
        res["cbmc_s"] = round(dt, 2)
        if to:
            res.update(verdict="timeout", detail="no verdict in %ds" % timeout)
            return res
        results, stats, errors = parse_cbmc_json(out)
        res["stats"] = stats
        if results is None:
            res.update(verdict="error", detail=("; ".join(errors) + err[-1500:] + out[-1500:])[-3000:])
            return res
        odd = [r for r in results if r.get("status") not in ("SUCCESS", "FAILURE")]
        hard_fail = [r for r in results if r.get("status") == "FAILURE" and not r.get("description", "").startswith("WITNESS")
                     and ".unwind." not in r.get("property", "") and "unwinding" not in r.get("description", "")]
        if odd and hard_fail:
            results = [r for r in results if r.get("status") in ("SUCCESS", "FAILURE")]     # undecided properties next to definite failures: report the failures
            odd = []
        if odd or (errors and not hard_fail):
            res.update(verdict="error", detail=("solver/engine error: " + "; ".join(errors)[:600] + " statuses=" +
                                                 str(sorted({r.get("status") for r in odd})))[:1500])
            return res
        wit_ok, wit_bad, unwind_fail, fails, n_ok = classify(results)
        res["n_properties"] = len(results)
        res["n_success"] = n_ok
        res["witnesses_reached"] = wit_ok
        if unwind_fail and q.replay:
            # an unwinding assertion failed: either the bound is too small for this harness (framework problem) or the loop
            # does not terminate.  Decide by replaying the solver's witness natively: a run that hangs is a violation.
            upid = unwind_fail[0].split(" ")[0]
            cmd = cbmc_cmd(q, wd) + ["--trace"]        # unwinding assertions cannot be selected with --property
            rc2, out2, err2, to2, dt2 = sh(cmd, timeout=timeout, mem_gb=mem)
            results2, _, _ = parse_cbmc_json(out2) if not to2 else (None, {}, [])
            trace = None
            for r in results2 or []:
                if r.get("property") == upid and r.get("status") == "FAILURE":
                    trace = r.get("trace")
            if trace:
                script = extract_script(trace)
                tag = hashlib.sha1((q.name + str(script) + upid).encode()).hexdigest()[:10]
                rdir = os.path.join(VERIF, "replays", "%s-%s" % (q.name, tag))
                status, detail = native_replay(q, script, rdir, kf_excl, hang_only=True)
                if status == "confirmed":
                    res.update(verdict="violation", replay_dir=rdir, replay_status="confirmed", script=script[:400],
                               replay_detail="native replay does not terminate: " + detail[-300:],
                               failed=[{"property": upid, "description": "loop does not terminate (unwinding assertion failed and the native replay of the witness hangs)", "location": {}}])
                    return res
        if unwind_fail:
            res.update(verdict="bound-too-small", detail=unwind_fail[:10])
            return res
        if not fails:
            if wit_bad or not wit_ok:
                res.update(verdict="vacuous", detail=wit_bad or ["no witness in harness"])
                return res
        if not fails:
            res["verdict"] = "holds"
            # known-finding confirmation: run again without the exclusion, the finding must show
            res["kf_excluded"] = kf_excl
            return res
        # candidate violation -> trace -> replay
        nobody = [r.get("description", "") for r in fails if (r.get("description") or "").startswith("no body for callee")]
        if nobody:
            res.update(verdict="build-error", detail="harness calls a function the build does not define: " + "; ".join(nobody[:3]))
            return res
        r0 = fails[0]
        res["failed"] = [{"property": r.get("property"), "description": r.get("description"),
                          "location": (r.get("sourceLocation") or {})} for r in fails[:20]]
        cmd = cbmc_cmd(q, wd, trace_prop=r0["property"])
        rc, out, err, to, dt = sh(cmd, timeout=timeout, mem_gb=mem)
        results2, _, _ = parse_cbmc_json(out) if not to else (None, {}, [])
        trace = None
        for r in results2 or []:
            if r.get("property") == r0["property"] and r.get("status") == "FAILURE":
                trace = r.get("trace")
        script = extract_script(trace or [])
        res["script"] = script[:400]
        tag = hashlib.sha1((q.name + str(script) + r0.get("description", "")).encode()).hexdigest()[:10]
        rdir = os.path.join(VERIF, "replays", "%s-%s" % (q.name, tag))
        os.makedirs(rdir, exist_ok=True)
        json.dump({"query": q.name, "harness": q.harness, "defs": q.defs, "failed": res["failed"], "script": script,
                   "kf_excluded": kf_excl}, open(os.path.join(rdir, "counterexample.json"), "w"), indent=1)
        res["replay_dir"] = rdir
        if not q.replay:
            res.update(verdict="violation-unreplayed", detail=r0.get("description", ""))
            return res
        status, detail = native_replay(q, script, rdir, kf_excl)
        res["replay_status"] = status
        res["replay_detail"] = detail[-1500:]
        if status == "confirmed":
            res["verdict"] = "violation"
        elif q.mode == "safety" and status == "not-reproduced":
            # CBMC-only findings (pointer arithmetic outside an object etc.) are reported separately
            res["verdict"] = "violation-unreplayed"
        else:
            res["verdict"] = "encoding-mismatch"
        return res
    finally:
        res["t_total"] = round(time.time() - t0, 2)
        if not keep:
            shutil.rmtree(wd, ignore_errors=True)
        else:
            res["workdir"] = wd


def load_known_findings():
    p = os.path.join(VERIF, "known_findings.json")
    if not os.path.exists(p):
        return []
    return json.load(open(p)).get("findings", [])


def main():
    ap = argparse.ArgumentParser()
    ap.add_argument("prop", nargs="?")
    ap.add_argument("--tier", default=os.environ.get("VERIF_TIER", "quick"))
    ap.add_argument("--only", default=None)
    ap.add_argument("--keep", action="store_true")
    ap.add_argument("--jobs", type=int, default=None)
    ap.add_argument("--replay", default=None)
    ap.add_argument("--list", action="store_true")
    ap.add_argument("--no-evidence", action="store_true")
    a = ap.parse_args()
    if a.replay:
        run = os.path.join(a.replay, "run.sh")
        if not os.path.exists(run):
            ce = os.path.join(a.replay, "counterexample.json")
            if os.path.exists(ce):
                # queries without a native twin (seam harnesses): show the solver's counterexample - query, failed properties, input values
                print(open(ce).read())
                print("(this query has no native replay: the values above are the solver's assignment to the harness inputs, in call order)")
                sys.exit(1)
            print("no run.sh in", a.replay); sys.exit(2)
        bs = os.path.join(a.replay, "build.sh")
        if os.path.exists(bs):
            subprocess.call(["sh", bs])
        sys.exit(subprocess.call(["sh", run]))
    import queries
    tier = a.tier if a.tier in ("quick", "thorough") else "quick"
    seed = int(os.environ.get("VERIF_SEED", "0") or 0)
    pid = a.prop
    qs = queries.for_property(pid, tier)
    if a.only:
        qs = [q for q in qs if a.only in q.name]
    if a.list:
        for q in qs:
            print(q.name, q.harness, q.defs, q.mode)
        return 0
    if seed:
        import random
        random.Random(seed).shuffle(qs)
    findings = load_known_findings()
    kf_open = {f["id"] for f in findings if f.get("status") == "open" and f.get("property") == pid}
    kf_all_open = {f["id"] for f in findings if f.get("status") == "open"}
    jobs = a.jobs or (12 if tier == "quick" else 6)
    workroot = tempfile.mkdtemp(prefix="verif_%s_" % pid, dir=os.environ.get("VERIF_SCRATCH", "/var/tmp"))
    t0 = time.time()
    results = []
    try:
        with cf.ThreadPoolExecutor(max_workers=jobs) as ex:
            futs = {ex.submit(run_query, q, tier, workroot, kf_all_open, a.keep): q for q in qs}
            for f in cf.as_completed(futs):
                r = f.result()
                results.append(r)
                print("  [%s] %-46s %-18s %6.1fs %s" % (pid, r["name"], r["verdict"], r["t_total"],
                      json.dumps(r.get("stats", {}).get("vccs", ""))), flush=True)
        # known-finding confirmation runs: same query with the exclusion lifted must exhibit the finding
        kf_lines = []
        for fnd in findings:
            if fnd.get("status") != "open" or fnd.get("property") != pid:
                continue
            cand = [q for q in qs if fnd["id"] in q.kf]
            shown = False
            for q in cand[:1]:
                r = run_query(q, tier, workroot, set(), a.keep)   # nothing excluded
                r["name"] += "+KF"
                if r["verdict"] in ("violation", "violation-unreplayed"):
                    labels = [x["description"] for x in r.get("failed", [])]
                    if any(fnd["label"] in l for l in labels):
                        shown = True
                        extra = [l for l in labels if fnd["label"] not in l and not any(o["label"] in l for o in findings)]
                        if extra:
                            r["verdict"] = "violation"; r["name"] += " (beyond known finding)"
                            results.append(r)
                r["kf_confirm"] = fnd["id"]
                results.append(dict(r, verdict="known-finding" if shown else "kf-not-reproduced"))
            if shown:
                kf_lines.append("KNOWN-FINDING: property=%s %s" % (pid, fnd["what"]))
        for l in kf_lines:
            print(l)
    finally:
        if not a.keep:
            shutil.rmtree(workroot, ignore_errors=True)
    wall = time.time() - t0
    viol = [r for r in results if r["verdict"] == "violation"]
    unrep = [r for r in results if r["verdict"] == "violation-unreplayed"]
    bad = [r for r in results if r["verdict"] in ("timeout", "error", "build-error", "vacuous", "bound-too-small",
                                                  "encoding-mismatch", "kf-not-reproduced") and r["verdict"] != "kf-not-reproduced"]
    held = [r for r in results if r["verdict"] == "holds"]
    if not a.no_evidence:
        write_evidence(pid, tier, seed, results, wall, queries)
    for r in viol + unrep:
        print("VIOLATION property=%s replay=%s" % (pid, r.get("replay_dir", "-")))
        for f in r.get("failed", [])[:5]:
            print("   failed: %s  [%s:%s]" % (f["description"], f["location"].get("file", "?"), f["location"].get("line", "?")))
        if r.get("replay_detail"):
            print("   replay: %s" % r.get("replay_status"))
    for r in bad:
        print("INCONCLUSIVE query=%s verdict=%s detail=%s" % (r["name"], r["verdict"], str(r.get("detail", r.get("replay_detail", "")))[:1500]))
    print("[%s] tier=%s queries=%d held=%d violations=%d inconclusive=%d wall=%.1fs" %
          (pid, tier, len(results), len(held), len(viol) + len(unrep), len(bad), wall))
    if viol or unrep:
        return 1
    if bad:
        return 3 if any(r["verdict"] == "encoding-mismatch" for r in bad) else 2
    if not held:
        print("no query was discharged"); return 2
    return 0


def write_evidence(pid, tier, seed, results, wall, queries):
    meta = queries.META.get(pid, {})
    held = [r for r in results if r["verdict"] in ("holds", "known-finding")]
    files = sorted({t for r in results for t in r.get("libtus", [])} | set(meta.get("files", [])))
    samples = []
    for r in results[:6]:
        samples.append({"query": r["name"], "harness": r["harness"], "instance": r["defs"], "bounds": r["bounds"],
                        "note": r["note"], "verdict": r["verdict"], "witnesses": r.get("witnesses_reached", [])[:6]})
    for r in results:
        if r["verdict"] in ("violation", "violation-unreplayed"):
            samples.append({"query": r["name"], "counterexample_script": r.get("script", [])[:60], "failed": r.get("failed", [])[:3]})
    ev = {
        "property_id": pid, "tier": tier, "seed": seed, "level": "model_checking",
        "coverage": {
            "evaluations": len([r for r in results if r["verdict"] not in ("build-error",)]),
            "distinct_nontrivial": len({(r["name"], w) for r in held for w in r.get("witnesses_reached", [])}),
            "rule": "one evaluation = one CBMC query (harness instance) decided by the SAT/SMT back end over ALL values of its "
                    "symbolic inputs within the stated bounds, unwinding assertions on; distinct_nontrivial counts distinct "
                    "(query instance, reachability witness) pairs of queries that held: a witness is an assert(0) planted at the end of a "
                    "harness branch and must be reported FAILED by the solver, i.e. that branch and its assertions are reachable (not vacuous)",
            "samples": samples,
            "states": max(1, sum((r.get("stats") or {}).get("ssa_steps", 0) for r in results)),
            "transitions": max(1, sum(max((r.get("stats") or {}).get("ssa_steps", 0) - 1, 0) for r in results)),
            "traces_validated_against_impl": len([r for r in results if r.get("replay_status")]),
            "states_transitions_meaning": "states = SSA steps of the bounded unrollings that CBMC's symbolic execution produced, summed over "
                                          "the queries of this run (each step is one symbolic state of the unrolled program, standing for "
                                          "all input values at once); transitions = step-to-step edges of those unrollings (steps - 1 per "
                                          "query); traces_validated_against_impl = solver counterexamples replayed natively (ASan/UBSan "
                                          "build of the same sources) in this run",
            "obligations": sum(r.get("n_properties", 0) for r in results),
            "discharged": sum(r.get("n_success", 0) for r in results),
            "solver_seconds": round(sum(r.get("cbmc_s", 0) for r in results), 1),
            "functions_encoded": meta.get("functions", []),
            "source_files": repo_file_hashes(files),
            "stubs": meta.get("stubs", []),
            "outside_claim": meta.get("outside", []),
            "queries": [{k: r.get(k) for k in ("name", "harness", "defs", "mode", "bounds", "unwind", "unwindset", "verdict",
                                               "cbmc_s", "stats", "n_properties", "n_success", "witnesses_reached",
                                               "removed_bodies", "kf_excluded", "note")} for r in results],
            "engine": "cbmc 6.11.0 (goto-cc from /repo working tree; MiniSat back end unless a query says otherwise)",
        },
        "assumptions": meta.get("assumptions", []),
        "wall_s": round(wall, 1),
        "violations": len([r for r in results if r["verdict"] in ("violation", "violation-unreplayed")]),
    }
    os.makedirs(os.path.join(VERIF, "evidence"), exist_ok=True)
    json.dump(ev, open(os.path.join(VERIF, "evidence", pid + ".json"), "w"), indent=1)


if __name__ == "__main__":
    sys.exit(main())
