#!/bin/sh
# usage: lib/try_mutation.sh <patch.diff> <property id> [extra bin/check args...]
# applies the patch to /repo, runs the check, restores /repo.  Prints the tail of the check output and its exit code.
P=$1; ID=$2; shift 2
cd /repo && git apply "$P" || { echo "patch does not apply"; exit 9; }
cd /verif && bin/check $ID --no-evidence "$@" > /var/tmp/try_mut_$ID.log 2>&1; rc=$?
git -C /repo checkout -- . 
grep -E "VIOLATION|INCONCLUSIVE|failed:|tier=" /var/tmp/try_mut_$ID.log | cut -c1-220 | head -14
echo "exit=$rc"
