"""Registry: property id -> solver queries per tier.  Bounds are stated in each Q (bounds=...)."""
import json, os, re
from driver import Q, VERIF, REPO

ICU = ["stubs/icu_str.c"]
ICU_LIBS = ["-licuio", "-licui18n", "-licuuc", "-licudata", "-lsqlite3"]
NATIVE_ICU = []   # native replays link the real ICU instead of stubs/icu_str.c
META = {}


# ------------------------------------------------------------------------------------------ C20
def gen_errlist(wd):
    src = open(os.path.join(REPO, "src", "cif.h")).read()
    seg = src[src.index("#define CIF_OK"):src.index("#define CIF_TRAVERSE_CONTINUE")]
    codes = [(m.group(1), int(m.group(2))) for m in re.finditer(r"^#define\s+(CIF_[A-Z0-9_]+)\s+(\d+)\s*$", seg, re.M)]
    kw = json.load(open(os.path.join(VERIF, "oracles", "errlist_keywords.json")))
    nalt = max(len(v) for k, v in kw.items() if not k.startswith("_")) + 1
    nkw = max(len(a) for k, v in kw.items() if not k.startswith("_") for a in v) + 1
    with open(os.path.join(wd, "errlist_gen.h"), "w") as f:
        f.write("#define NCODES %d\n#define NALT %d\n#define NKW %d\n" % (len(codes), nalt, nkw))
        f.write("static const int codes[NCODES] = {%s};\n" % ",".join(str(c) for _, c in codes))
        f.write("static const char *const kw[NCODES][NALT][NKW] = {\n")
        for name, c in codes:
            alts = kw.get(name, [[""]])   # a code the oracle does not know: only non-emptiness is required
            f.write(" {" + ",".join("{" + ",".join('"%s"' % w for w in a) + ",0}" for a in alts) + ",{0}},\n")
        f.write("};\n")


def c20(tier):
    return [Q("C20_errlist", "h20_errlist.c", gen=gen_errlist, unwind=82,
              unwindset=["is_code.*:70", "@h20_errlist.c:43:70", "@h20_errlist.c:46:8", "@h20_errlist.c:48:6"],
              mode="func", replay_libs=ICU_LIBS + ["-lsqlite3"], uthash="real", timeout=200,
              bounds={"codes": "all result codes #defined in the current cif.h", "exhaustive": True},
              note="symbolic code index over the finite set; keyword oracle from oracles/errlist_keywords.json")]


META["C20"] = {"files": ["cif.c", "cif.h"], "functions": ["cif_errlist (table)", "cif_nerr"],
               "stubs": [], "assumptions": ["the code list is extracted textually from cif.h between CIF_OK and CIF_TRAVERSE_CONTINUE",
                                            "pertinence of a message is judged by the loose keyword oracle oracles/errlist_keywords.json"],
               "outside": ["whether library functions return the right code (other properties)"]}


# ------------------------------------------------------------------------------------------ C10
def c10(tier):
    K = 8 if tier == "quick" else 10           # 12 gave no verdict in 1800 s (measured); 9 takes ~200 s
    qs = []
    for mode in ("func", "safety"):
        qs.append(Q("C10_lex_K%d_%s" % (K, mode), "h10_lex.c", defs={"KLEN": K}, extra=ICU, unwind=K + 2, mode=mode,
                    replay_libs=ICU_LIBS, native_extra=NATIVE_ICU, kf=["NUMB_EXP_OVERFLOW"],
                    bounds={"string length": "<= %d code units, full 16-bit alphabet" % K},
                    note="cif_value_parse_numb vs reference grammar parser"))
    for ed in ((10,) if tier == "quick" else (10, 11)):
        qs.append(Q("C10_lex_exp%d_safety" % ed, "h10_lex.c", defs={"KLEN": ed + 3, "STRUCT_EXP": None, "EXPD": ed}, extra=ICU,
                    unwind=ed + 5, mode="safety", replay_libs=ICU_LIBS, native_extra=NATIVE_ICU, kf=["NUMB_EXP_OVERFLOW"],
                    bounds={"input": "D [eE] [+-]? D{%d}" % ed}, note="structured query: long exponents"))
    return qs


META["C10"] = {"files": ["value.c"], "functions": ["cif_value_parse_numb"], "stubs": ["stubs/icu_str.c (exact ICU string helpers)"],
               "assumptions": ["malloc does not fail (allocation failure is C17)"],
               "outside": ["strings longer than the bound", "correct rounding of to_double/to_digits (tried again during the build: to_double on a window of 10^6 integers around 2^53 with a libm-generated log10 table - SAT conversion out of memory at 10 GB; the bignum's symbolic limb pointers defeat the encoding)",
                           "cif_value_autoinit_numb (libc sprintf/strtol)"]}


# ------------------------------------------------------------------------------------------ C18
def c18(tier):
    qs = []
    K = 5 if tier == "quick" else 7
    for mode in ("func", "safety"):
        qs.append(Q("C18_stat_K%d_%s" % (K, mode), "h18_stat.c", defs={"KLEN": K}, extra=ICU, unwind=K + 3, mode=mode,
                    replay_libs=ICU_LIBS, native_extra=NATIVE_ICU, kf=["ANALYZE_CRLF_FIRST"],
                    unwindset=["cif_analyze_string.*:%d" % (K + 3), "u_strstr.*:%d" % (K + 2)],
                    bounds={"string": "<= %d units, full 16-bit alphabet" % K, "flags": "both", "length_limit": "8..2048"},
                    note="cif_analyze_string statistics vs reference"))
    K = 8
    qs.append(Q("C18_res_K%d" % K, "h18_res.c", defs={"KLEN": K}, extra=ICU, unwind=K + 2, mode="func",
                replay_libs=ICU_LIBS, native_extra=NATIVE_ICU,
                bounds={"string": "<= %d units, full alphabet" % K}, note="cif_is_reserved_string vs reference predicate"))
    K = 5 if tier == "quick" else 8
    qs.append(Q("C18_unq_K%d" % K, "h18_unq.c", defs={"KLEN": K}, extra=ICU, libtus=["utils.c"], unwind=K + 2, mode="func",
                replay_libs=ICU_LIBS, native_extra=NATIVE_ICU, unwindset=["cif_value_free:2", "cif_value_clean:2", "u_strpbrk.*:%d" % max(K + 2, 10)],
                bounds={"string": "<= %d units over the CIF 2.0 character set" % K},
                note="cif_value_set_quoted / try_quoted(NOT_QUOTED) vs reference predicate"))
    # admissibility of the recommended presentation: the dispatch queries of C02 / C13 (real cif_analyze_string + write_char, writers =
    # stubs asserting the conditions under which each presentation reads back) are C18 statements as well
    import copy
    for ver, fn in ((2, c02), (1, c13)):
        for q in fn(tier):
            if "_dispatch_K" in q.name and "_F" not in q.name:
                q = copy.copy(q); q.name = "C18_via_" + q.name; qs.append(q)
    return qs


META["C18"] = {"files": ["utils.c", "value.c"], "functions": ["cif_analyze_string", "cif_is_reserved_string", "cif_value_set_quoted", "cif_value_try_quoted"],
               "stubs": ["stubs/icu_str.c (exact ICU string helpers)"], "assumptions": ["malloc does not fail"],
               "outside": ["strings longer than the bound", "read-back of the recommended delimiter by the parser unless a C18_delim query is listed"]}


# ------------------------------------------------------------------------------------------ C09
ICU_NORM_CHEAP = ["stubs/icu_str.c", "stubs/icu_norm_cheap.c"]


def c09(tier):
    qs = []
    for (L, K) in (((8, 5), (4, 5)) if tier == "quick" else ((8, 7), (5, 7), (4, 6))):
        for mode in ("func", "safety"):
            qs.append(Q("C09_valid_L%d_K%d_%s" % (L, K, mode), "h09_valid.c", defs={"KLEN": K, "CIF_API_VERIF_LINE_LENGTH": L},
                        extra=ICU_NORM_CHEAP, unwind=K + 3, mode=mode, replay_libs=ICU_LIBS, native_extra=["stubs/icu_norm_cheap.c"],
                        bounds={"string": "<= %d units, full 16-bit alphabet" % K, "CIF_LINE_LENGTH (hook)": L},
                        note="validity screening of codes / data names / table keys vs reference predicate"))
    # keys of tables and packets: matched by equivalence, enumerated in the most recently used spelling (the C19 map queries)
    import copy
    for q in c19(tier):
        if q.name.startswith("C19_table_") or q.name.startswith("C19_packet_"):
            q = copy.copy(q); q.name = "C09_via_" + q.name; qs.append(q)
    return qs


META["C09"] = {"files": ["utils.c"], "functions": ["cif_normalize_name", "cif_normalize_item_name", "cif_normalize_table_index",
                                                    "cif_is_valid_name", "cif_has_disallowed_chars", "cif_has_whitespace", "cif_normalize",
                                                    "cif_unicode_normalize", "cif_fold_case"],
               "stubs": ["stubs/icu_str.c (exact)", "stubs/icu_norm_cheap.c (identity NFD/NFC, ASCII case fold, ICU buffer protocol)"],
               "assumptions": ["malloc does not fail", "CIF_LINE_LENGTH shrunk by hook: the code is parametric in the macro (argued, not proved)"],
               "outside": ["behaviour of NFD/case-fold/NFC over the Unicode repertoire (ICU data)", "SQL comparison of keys"]}


# ------------------------------------------------------------------------------------------ C08
INIT_TABLE_LOOPS = ["@parser.c:0:0"]   # placeholder, replaced below


def parser_unwind(K):
    """Unwindset for harnesses that run INIT_V2_SCANNER (constant-trip table loops up to 160)."""
    return ["harness.*:%d" % 200]


def c08(tier):
    qs = []
    hook = {"CIF_API_VERIF_BUF_SIZE_INITIAL": 8, "CIF_API_VERIF_BUF_MIN_FILL": 4, "CIF_API_VERIF_LINE_LENGTH": 6}
    for (bs, ch, mode) in (((8, 3, "func"), (8, 2, "safety")) if tier == "quick" else ((8, 4, "func"), (8, 3, "func"), (8, 3, "safety"), (8, 2, "safety"))):     # a 16-unit buffer with chunks of 4: SAT conversion out of memory at 10 GB
        if True:
            d = dict(hook); d.update({"CHUNK": ch, "BSIZE": bs})
            qs.append(Q("C08_step_B%d_C%d_%s" % (bs, ch, mode), "h08_step.c", defs=d, extra=ICU, unwind=2 * bs + 2, mode=mode,
                        replay_libs=ICU_LIBS, native_extra=NATIVE_ICU, mem_gb=10,
                        bounds={"pre-state": "arbitrary valid scanner state over a %d-unit buffer (arbitrary content, text_start, token start, cr_pending)" % bs,
                                "chunk": "arbitrary content, length 0..%d, up to 2 reads" % ch, "BUF_MIN_FILL": 4},
                        note="one inductive fill step of get_more_chars vs reference EOL normalisation"))
    for mode in ("func", "safety"):
        qs.append(Q("C08_first_%s" % mode, "h08_first.c", defs=hook, extra=ICU, unwind=6, mode=mode, unwindset=["harness.*:170"],
                    replay_libs=ICU_LIBS, native_extra=NATIVE_ICU,
                    bounds={"input": "0..4 units, arbitrary chunking"}, note="get_first_char loses / duplicates nothing"))
    # byte stage: ustream_read_chars over a small byte buffer with a one-byte-per-unit converter model
    for (nb, bs, pre, cm) in ([(5, 4, 2, 3), (6, 4, 4, 2), (3, 4, 3, 3)] if tier == "quick" else [(5, 4, 2, 3), (6, 4, 4, 2), (3, 4, 3, 3), (8, 4, 4, 3), (9, 4, 1, 4), (4, 4, 0, 2), (7, 3, 3, 5)]):
        qs.append(Q("C08_ustream_N%d_B%d_P%d_C%d" % (nb, bs, pre, cm), "h08_ustream.c", defs={"NB": nb, "BS": bs, "PRE": pre, "CMAX": cm}, extra=ICU_NORM_CHEAP,
                    libtus=["ciffile.c", "utils.c", "value.c", "map.c", "packet.c"], gen=gen_write_ctx, unwind=nb + 4, unwindset=VAL_REC + ["harness.*:%d" % (nb + cm + 5)],
                    mode="safety", replay_libs=ICU_LIBS, native_extra=["stubs/icu_norm_cheap.c"], uthash="model", mem_gb=8, object_bits=10,
                    bounds={"file": "%d symbolic bytes, %d of them pre-read" % (nb, pre), "byte buffer": "%d bytes" % bs, "units asked for per call": "1..%d symbolic" % cm,
                            "converter": "model: one code unit per byte, overflow reported when the target is full"},
                    note="ustream_read_chars: chunking between file, byte buffer and scan buffer loses nothing"))
    return qs


META["C08"] = {"files": ["parser.c"], "functions": ["get_first_char", "get_more_chars"],
               "stubs": ["stubs/icu_str.c (exact)", "character source = nondeterministic chunking of a symbolic input"],
               "assumptions": ["buffer sizes shrunk by hook (code parametric in the macros)", "malloc does not fail"],
               "outside": ["the 4096-byte byte buffer and ICU's incremental conversion", "inputs longer than the bound"]}


# ------------------------------------------------------------------------------------------ C14
def c14(tier):
    qs = []
    shapes = [(2, 1, 1, 1, 1), (1, 2, 1, 1, 1), (1, 0, 2, 1, 1), (1, 0, 1, 2, 1), (1, 0, 1, 1, 2), (1, 1, 2, 2, 2), (2, 2, 1, 2, 2)]
    if tier != "quick":
        shapes += [(2, 1, 2, 2, 2), (2, 2, 2, 2, 2), (3, 1, 1, 2, 2), (1, 3, 1, 2, 2), (1, 1, 3, 2, 2), (1, 1, 1, 3, 2), (1, 1, 1, 2, 3)]
    # the handler's positive code: 7 (an arbitrary code) everywhere, and 1 = CIF_FINISHED - which the walker also receives from the packet
    # iterator at the end of a loop - on two shapes
    for (b, f, l, p, i, pos) in [s + (7,) for s in shapes] + [(1, 0, 1, 2, 1, 1), (1, 1, 2, 2, 2, 1)]:
        d = {"MAXB": b, "MAXF": f, "MAXL": l, "MAXP": p, "MAXI": i, "EXACT_SHAPE": None, "POSCODE": pos}
        nev = 2 + b * (1 + f) * (2 + l * (2 + p * (2 + i)))
        rec = ["__CPROVER_file_local_cif_c_walk_container:3", "ref_cont:3"]
        qs.append(Q("C14_walk_%d%d%d%d%d%s" % (b, f, l, p, i, "" if pos == 7 else "_code%d" % pos), "h14_walk.c", defs=d, unwind=max(b * (1 + f), l, p, i) + 2, mode="func",
                    unwindset=["harness.*:%d" % (nev + 2)] + rec, object_bits=12, libtus=["cif.c"], remove=[("cif.c", "cif_get_all_blocks")],
                    replay_libs=ICU_LIBS, uthash="real", timeout=None,
                    bounds={"tree": "%d blocks x %d frames each x %d loops per container x %d packets x %d items (concrete shape; shapes enumerated by the driver)" % (b, f, l, p, i),
                            "handler program": "every assignment of {CONTINUE,SKIP_CURRENT,SKIP_SIBLINGS,END,%d} to the %d callback invocations" % (pos, nev)},
                    note="real cif_walk/walk_* over a symbolic tree vs reference walker (MUST/MUSTNOT/MAY)"))
    (b, f, l, p, i) = (1, 1, 1, 2, 1)          # (2, 1, 1, 2, 1) under CBMC's memory checks: engine error after 8-30 min per instance (measured), not used
    ncalls = 1 + b * (1 + f) * (2 + l * (1 + p))
    for k in range(1, ncalls + 1):
        d = {"MAXB": b, "MAXF": f, "MAXL": l, "MAXP": p, "MAXI": i, "FAIL_AT": k, "EXACT_SHAPE": None}
        qs.append(Q("C14_walk_fail_at%02d" % k, "h14_walk.c", defs=d, unwind=6, mode=("func" if tier == "quick" else "safety"),
                    unwindset=["harness.*:50", "__CPROVER_file_local_cif_c_walk_container:3"],
                    object_bits=12, replay_libs=ICU_LIBS, uthash="real", libtus=["cif.c"], remove=[("cif.c", "cif_get_all_blocks")],
                    bounds={"tree": "%dx%dx%dx%dx%d" % (b, f, l, p, i), "storage": "storage call number %d of %d fails" % (k, ncalls)},
                    note="handles released, iterator closed, memory safety when a storage call fails; all handler programs"))
    return qs


META["C14"] = {"files": ["cif.c"], "functions": ["cif_walk", "walk_container", "walk_loops", "walk_loop", "walk_packet", "walk_item"],
               "stubs": ["cif_get_all_blocks, cif_container_get_all_frames/_loops, cif_loop_get_packets, cif_pktitr_next_packet/_close, cif_*_free = symbolic tree"],
               "assumptions": ["SKIP_SIBLINGS answered by an end callback is outside the claim (undocumented)", "frames nest one level"],
               "outside": ["that the handles describe the stored content (C04/C06/C07)", "trees larger than the bound"]}


# ------------------------------------------------------------------------------------------ C19
VAL_REC = ["cif_value_free:2", "cif_value_clean:2", "cif_value_clone:2",
           "__CPROVER_file_local_value_c_cif_list_value_clean:2", "__CPROVER_file_local_value_c_cif_table_value_clean:2",
           "__CPROVER_file_local_value_c_cif_value_clone_list:2", "__CPROVER_file_local_value_c_cif_value_clone_table:2",
           "cif_map_entry_free_internal:2", "cif_list_value_clean:2", "cif_table_value_clean:2", "cif_value_clone_list:2", "cif_value_clone_table:2"]


def c19(tier):
    qs = []
    shapes = [(0, 0), (1, 4), (3, 4), (4, 4)] if tier == "quick" else [(0, 0), (0, 4), (1, 4), (2, 4), (3, 4), (4, 4), (5, 8), (8, 8), (12, 12)]
    for (p, cap) in shapes:
        for op in range(6):
            for idx in range(p + 2):
                mode = "safety" if (p <= 4 and (tier != "quick" or idx in (0, p))) else "func"
                qs.append(Q("C19_list_P%d_C%d_op%d_i%d" % (p, cap, op, idx), "h19_list.c",
                            defs={"LSZ": p, "LCAP": cap, "OPK": op, "OPIDX": idx}, extra=ICU_NORM_CHEAP,
                            libtus=["map.c", "utils.c"], unwind=p + 4, unwindset=VAL_REC, mode=mode, replay_libs=ICU_LIBS,
                            native_extra=["stubs/icu_norm_cheap.c"], object_bits=10, group="h19_list",
                            bounds={"list state": "size %d, capacity %d, element texts symbolic" % (p, cap),
                                    "operation": "%s at index %d" % (["insert", "set", "take", "drop", "self-set", "get"][op], idx)},
                            note="one list operation from an arbitrary state of this shape vs array model (inductive step)"))
    for shape in (0, 1, 2, 4, 5, 6, 8, 9):   # 3 (number via parse_numb) and 7 (table{a:list}) give no verdict in 240 s: not claimed; 8 / 9 = number state constructed directly
        exist = [None] + ([4, 5] if tier != "quick" or shape in (0, 4) else [])
        for ex, which in [(e, w) for e in exist for w in (range(5) if shape == 4 else range(4))]:       # which 4: grow the cloned list
            d = {"SHAPE": shape, "WHICH": which, "NORM_SINGLETONS": None}      # table key U+212B: normalised form differs from the spelling entered
            if ex is not None:
                d.update({"INTO_EXISTING": None, "EXISTING_SHAPE": ex})
            qs.append(Q("C19_clone_S%d%s_w%d" % (shape, "" if ex is None else "_into%d" % ex, which), "h19_clone.c", defs=d, extra=ICU_NORM_CHEAP,
                        libtus=["value.c", "map.c", "packet.c", "utils.c"], unwind=6,
                        unwindset=[e.replace(":2", ":4") for e in VAL_REC] + ["memcmp.*:8"], mode="safety", replay_libs=ICU_LIBS,
                        native_extra=["stubs/icu_norm_cheap.c"], object_bits=10, group="h19_clone", timeout=600 if tier != "quick" else None,
                        bounds={"shape": ["char", "unknown", "n/a", "number", "list[char,n/a]", "table{a:char}", "list[list[char]]", "table{a:list[char]}", "number with uncertainty (arbitrary state)", "list[number with uncertainty]"][shape],
                                "contents": "texts of <= 2 units, quoted flag, digits symbolic", "target": "new object" if ex is None else "existing value of shape %d" % ex,
                                "then": ["free original", "free clone", "re-init clone", "re-init original", "extend the clone"][which]},
                        note="clone: deep equality, no sharing, independence under release / re-initialisation, no leak"))
    for pk in (0, 1):
        for npre in ((2,) if tier == "quick" else (1, 2, 3)):
            for op in range(6):
                # read-only lookups keep a SYMBOLIC key; operations that change the container's shape use concrete keys
                # (exact / case-variant / absent spellings, all enumerated): with a symbolic key the shape after the
                # operation is symbolic and no back end finished in 240 s (measured)
                ksels = [None] if op == 2 else list(range(6))
                # packets a second time with the entries made by cif_packet_create(names) instead of set_item (different key ownership)
                for ks, bycreate in [(k, b) for k in ksels for b in ((0, 1) if pk else (0,))]:
                    d = {"NPRE": npre, "OPK": op}
                    if pk:
                        d["PACKET"] = None
                    if bycreate:
                        d["PRE_BY_CREATE"] = None
                    if ks is not None:
                        d["KSEL"] = ks
                    qs.append(Q("C19_%s%s_N%d_op%d_k%s" % ("packet" if pk else "table", "_created" if bycreate else "", npre, op, "sym" if ks is None else ks), "h19_map.c",
                                defs=d, extra=ICU_NORM_CHEAP, libtus=["value.c", "map.c", "packet.c", "utils.c"], unwind=npre + 4,
                                unwindset=VAL_REC + ["memcmp.*:8"], mode="safety", replay_libs=ICU_LIBS,
                                native_extra=["stubs/icu_norm_cheap.c"], object_bits=10, group="h19_map",
                                bounds={"entries": ("%d made by cif_packet_create under concrete names, values unknown" if bycreate else "%d pre-inserted under concrete keys, symbolic values") % npre,
                                        "operation": ["set", "set NULL", "get", "take", "drop", "self-set"][op],
                                        "key": "symbolic" if ks is None else "concrete spelling #%d of a/A/B/b/c/z" % ks},
                                note="%s contract vs map model" % ("packet" if pk else "table")))
    return qs


META["C19"] = {"files": ["value.c", "map.c", "packet.c", "utils.c"], "functions": ["cif_value_create", "cif_value_free", "cif_value_clean", "cif_value_clone",
               "cif_value_copy_char", "cif_value_insert_element_at", "cif_value_set_element_at", "cif_value_remove_element_at", "cif_value_get_element_at",
               "cif_value_get_element_count"],
               "stubs": ["stubs/icu_str.c (exact)", "stubs/icu_norm_cheap.c", "stubs/uthash_model (list model of uthash)"],
               "assumptions": ["malloc does not fail (C17 covers failures)", "element values are one-unit strings",
                               "operation kinds, indices and (for shape-changing map operations) key spellings are concrete per instance and enumerated by the driver; values/texts are symbolic"],
               "outside": ["sequences longer than one step from the enumerated shapes (covered by induction over operations, argued)",
                           "uthash hashing/bucket growth", "clone of number values and of table-in-list nesting deeper than listed (no verdict within the cap)"]}


# ------------------------------------------------------------------------------------------ C07
SHAPE_NAMES = ["char", "unknown", "n/a", "number", "list[char,n/a]", "table{a:char}", "list[list[char]]", "table{a:list[char]}"]


def c07(tier):
    qs = []
    SERCAP = int(os.environ.get("SERCAP", "512"))
    # round trip through the byte image: only the shapes whose image CBMC can follow (kinds without text); for the others
    # the kind/length read back from the byte buffer is symbolic to CBMC and the deserialiser's recursion explodes (measured:
    # no verdict in 240 s even for a single char value with concrete text) -> not claimed
    for shape in (1, 2):
        for mode in ("func", "safety"):
            qs.append(Q("C07_ser_S%d_%s" % (shape, mode), "h07_ser.c", defs={"SHAPE": shape, "CIF_API_VERIF_SERIALIZATION_CAP": SERCAP}, extra=ICU_NORM_CHEAP,
                        libtus=["value.c", "map.c", "packet.c", "utils.c"], unwind=8,
                        unwindset=[e.replace(":2", ":4") for e in VAL_REC] + ["memcmp.*:8", "cif_buf_write.*:12"], mode=mode, replay_libs=ICU_LIBS,
                        native_extra=["stubs/icu_norm_cheap.c"], object_bits=10, group="h07_ser",
                        bounds={"shape": SHAPE_NAMES[shape], "DEFAULT_SERIALIZATION_CAP": SERCAP},
                        note="serialize -> deserialize round trip"))
    import sql_colmap
    for vk in range(4):
        for wp in (0, 1):
            for rp in (0,):   # read path 1 (iterator, GET_LOOP_VALUES_SQL) gives no verdict in 240 s: not claimed
                qs.append(Q("C07_props_%s_w%d_r%d" % (["char", "numb", "na", "unk"][vk], wp, rp), "h07_props.c", defs={"VKIND": vk, "WPATH": wp, "RPATH": rp, "SENV_COLSTORE": None},
                            extra=SQL_EXTRA, libtus=SQL_TUS, gen=lambda wd: sql_colmap.gen(wd, REPO), unwind=8,
                            remove=[("value.c", "cif_value_get_number")] if vk == 1 else [],
                            unwindset=VAL_REC + ["memcmp.*:8", "teardown.*:31", "strcmp.*:900", "strncmp.*:20", "memset.*:700", "sqlite3_prepare_v2.*:40",
                                                 "sqlite3_clear_bindings.*:18", "sqlite3_finalize.*:18", "sqlite3_step.*:18", "memcpy.*:64", "strlen.*:8", "harness.*:10"],
                            mode="func", replay_libs=["-licuio", "-licui18n", "-licuuc", "-licudata"], native_extra=["stubs/icu_norm_cheap.c", "stubs/sqlite_env.c"],
                            object_bits=10, group="h07_props",
                            bounds={"value": ["char, 2 symbolic units, symbolic quoted flag", "number -4.7(2) (concrete)", "n/a", "unknown"][vk],
                                    "write path": ["cif_container_set_all_values (SET_ALL_VALUES_SQL)", "cif_loop_add_packet (INSERT_VALUE_SQL)"][wp],
                                    "read path": ["cif_container_get_value (GET_VALUE_SQL)", "cif_loop_get_packets + cif_pktitr_next_packet (GET_LOOP_VALUES_SQL)"][rp]},
                            note="SET_VALUE_PROPS -> column map of the current sql.h -> GET_VALUE_PROPS"))
    caps = [(1, 0), (2, 1), (8, 0), (8, 8)] if tier == "quick" else [(1, 0), (1, 1), (2, 0), (2, 1), (3, 3), (8, 0), (8, 5), (8, 8), (16, 9)]
    for (cap, pos) in caps:
        for ln in sorted({0, 1, max(cap - pos, 0), max(cap - pos, 0) + 1, (cap * 3) // 2 - pos if (cap * 3) // 2 > pos else 2, (cap * 3) // 2 - pos + 1 if (cap * 3) // 2 >= pos else 3, 3 * cap + 1}):
            qs.append(Q("C07_buf_c%d_p%d_l%d" % (cap, pos, ln), "h07_buf.c", defs={"BCAP": cap, "BPOS": pos, "BLEN": ln}, extra=ICU + ["stubs/mem_bytes.c"],
                        unwind=2 * (pos + 3 * ln) + 12, mode="safety", replay_libs=ICU_LIBS, native_extra=NATIVE_ICU, group="h07_buf",
                        bounds={"capacity": cap, "already written": pos, "write length": ln, "bytes": "symbolic"},
                        note="cif_buf_write growth: termination (unwinding assertion + native replay), capacity bookkeeping, content preservation"))
    # the copy made on the way into a packet / list / table (cif_value_clone): deep equality incl. the spelling of table keys, independence
    import copy
    for q in c19(tier):
        if "_clone_" in q.name:
            q = copy.copy(q); q.name = "C07_via_" + q.name; qs.append(q)
    return qs


META["C07"] = {"files": ["value.c", "map.c", "internal/utils.h"], "functions": ["cif_value_serialize", "cif_value_deserialize", "cif_list_serialize",
               "cif_table_serialize", "cif_list_deserialize", "cif_table_deserialize", "cif_buf_write", "cif_buf_read", "cif_buf_create"],
               "stubs": ["stubs/icu_str.c", "stubs/icu_norm_cheap.c", "stubs/uthash_model"],
               "assumptions": ["malloc does not fail", "value-tree shape concrete per instance (enumerated), contents symbolic"],
               "outside": ["SQLite's own storage of the columns (UTF-16/UTF-8, numeric affinity)", "strings longer than the bound", "nesting deeper than the listed shapes"]}


# ------------------------------------------------------------------------------------------ C17
VF = {"malloc": "vf_malloc", "calloc": "vf_calloc", "realloc": "vf_realloc", "strdup": "vf_strdup"}


def c17(tier):
    qs = []
    inst = [(1, {}), (4, {}), (5, {}), (8, {}), (9, {}), (10, {}), (11, {}), (12, {}), (14, {})]
    inst += [(2, {"SHAPE": s}) for s in ((0, 4, 5) if tier == "quick" else (0, 1, 4, 5, 6))]
    inst += [(3, {"SHAPE": s}) for s in ((4,) if tier == "quick" else (0, 4, 5))]
    inst += [(6, {"LSZ": n}) for n in ((0, 4) if tier == "quick" else (0, 1, 4, 8))]
    inst += [(7, {"KEYSEL": k}) for k in (0, 1)]
    inst += [(13, {"SHAPE": s}) for s in (0, 4)]
    inst += [(15, {"INTO_SHAPE": s}) for s in ((0,) if tier == "quick" else (0, 1, 4))]
    inst += [(16, {"SHAPE": s, "CIF_API_VERIF_SERIALIZATION_CAP": c}) for (s, c) in (((4, 4), (4, 12), (5, 12)) if tier == "quick" else ((0, 4), (4, 4), (4, 12), (4, 24), (5, 4), (5, 12), (6, 12), (6, 20)))]
    SYMBOLIC_OK = {1, 4, 8, 11, 12, 13, 14}          # targets whose symbolic-ordinal query finishes (measured)
    NSITES = {2: 10, 3: 10, 5: 5, 6: 6, 7: 10, 9: 14, 10: 10, 15: 6, 16: 13}   # upper bounds on allocation sites (EXPECT asserts vf_count < MAXALLOC)
    for (t, extra) in inst:
        fails = [None] if t in SYMBOLIC_OK else list(range(0, NSITES.get(t, 10) + 1))
        for fa in fails:
            d = {"TARGET": t, "MAXALLOC": 14}; d.update(extra)
            if fa is not None:
                d["FAILAT"] = fa
                d["NSITES"] = NSITES.get(t, 10)
            qs.append(Q("C17_alloc_T%d%s%s" % (t, "".join("_%s%s" % (k[0], v) for k, v in extra.items()), "" if fa is None else "_f%02d" % fa), "h17_alloc.c", defs=d,
                        extra=ICU_NORM_CHEAP + ["stubs/alloc_fault.c"], libtus=["value.c", "map.c", "packet.c", "utils.c"], lib_defs=VF,
                        unwind=(9 if t == 15 else (extra.get("LSZ", 0) + 4 if extra.get("LSZ", 0) >= 4 else 5)), unwindset=[e.replace(":2", ":3") if extra.get("SHAPE") == 6 else e for e in VAL_REC] + ["memcmp.*:8", "memcpy.*:16", "strlen.*:8"] + (["harness.*:98"] if t == 16 else []), mode="safety",
                        replay_libs=ICU_LIBS, native_extra=["stubs/icu_norm_cheap.c", "stubs/alloc_fault.c"], object_bits=10, group="h17_alloc",
                        bounds={"call": {1: "cif_value_create(CHAR)", 2: "cif_value_clone -> new", 3: "cif_value_clone -> existing", 4: "cif_value_copy_char",
                                         5: "cif_value_parse_numb", 6: "cif_value_insert_element_at", 7: "cif_value_set_item_by_key", 8: "cif_value_get_keys",
                                         9: "cif_packet_create", 10: "cif_packet_set_item", 11: "cif_value_get_text", 12: "cif_normalize_name",
                                         13: "cif_value_init(CHAR)", 14: "cif_u_strdup", 15: "cif_value_clone(number with su) -> existing", 16: "cif_value_serialize"}[t], "arguments": str(extra),
                                "failing allocation": "symbolic ordinal 0 (none) .. 14" if fa is None else ("none" if fa == 0 else "allocation number %d" % fa)},
                        note="one allocation failure" + (" at a symbolic site" if fa is None else " (site enumerated)")))
    return qs


META["C17"] = {"files": ["value.c", "map.c", "packet.c", "utils.c"], "functions": ["see queries[].bounds.call"],
               "stubs": ["stubs/alloc_fault.c (malloc/calloc/realloc/strdup renamed in the library TUs; the k-th allocation fails)", "stubs/icu_str.c", "stubs/icu_norm_cheap.c", "stubs/uthash_model"],
               "assumptions": ["exactly one allocation fails per call (or none)", "argument shapes concrete per instance, enumerated"],
               "outside": ["allocations inside SQLite / ICU", "API functions backed by SQLite unless listed", "functions not listed in the queries"]}


# ------------------------------------------------------------------------------------------ C05
SQL_TUS = ["cif.c", "container.c", "loop.c", "pktitr.c", "packet.c", "map.c", "utils.c", "value.c"]
SQL_EXTRA = ["stubs/icu_str.c", "stubs/icu_norm_cheap.c", "stubs/sqlite_env.c"]
FN_NAMES = {1: "cif_create_block", 2: "cif_container_create_frame", 3: "cif_container_create_loop", 4: "cif_loop_add_item", 5: "cif_loop_add_packet",
            6: "cif_container_set_value", 7: "cif_container_remove_item", 8: "cif_loop_set_category", 9: "cif_loop_destroy",
            10: "cif_container_destroy", 11: "cif_container_prune"}


def c05(tier):
    qs = []
    inst = [(f, {}) for f in ((1, 2, 4, 7, 8, 9, 10, 11) if tier == "quick" else (1, 2, 4, 6, 7, 8, 9, 10, 11))]   # set_value: ~330 s, thorough only
    inst += [(3, {"NNAMES": n}) for n in ((1, 3) if tier == "quick" else (1, 2, 3))]
    inst += [(5, {"NNAMES": n}) for n in ((1, 2) if tier == "quick" else (1, 2, 3))]
    for (f, extra) in inst:
        d = {"FN": f}; d.update(extra)
        qs.append(Q("C05_tx_%s%s" % (FN_NAMES[f], "".join("_%s" % v for v in extra.values())), "h05_tx.c", defs=d, extra=SQL_EXTRA, libtus=SQL_TUS,
                    unwind=6, unwindset=VAL_REC + ["memcmp.*:8", "live_stmts.*:31", "teardown.*:31", "strcmp.*:80", "strncmp.*:8", "memset.*:700", "sqlite3_prepare_v2.*:18", "sqlite3_clear_bindings.*:18", "sqlite3_finalize.*:18", "sqlite3_step.*:18"], mode="func",
                    replay_libs=["-licuio", "-licui18n", "-licuuc", "-licudata"], native_extra=["stubs/icu_norm_cheap.c", "stubs/sqlite_env.c"], object_bits=10, group="h05_tx",
                    bounds={"function": FN_NAMES[f], "arguments": "concrete valid names/packet %s" % (extra or ""),
                            "engine": "every outcome sequence of prepare/bind/step/reset/exec/commit within the documented result codes",
                            "entry state": "autocommit or inside an enclosing transaction (symbolic)"},
                    note="transaction-frame ledger: nothing dirty survives a failure, no transaction left open, handles only on success"))
    # failed iterator updates (a packet with an item of another loop is refused with CIF_WRONG_LOOP): nothing of the refused update stays
    import copy
    for q in c06(tier):
        if "f" in q.defs["CALLS"].strip('"')[:-1] and (tier != "quick" or q.defs["FAILCALL"] == 0):
            q = copy.copy(q); q.name = "C05_via_" + q.name; qs.append(q)
    return qs


META["C05"] = {"files": ["cif.c", "container.c", "loop.c", "internal/utils.h"], "functions": list(FN_NAMES.values()),
               "stubs": ["stubs/sqlite_env.c (transaction stack, dirty marks, statement life cycle, nondeterministic outcomes)", "stubs/icu_str.c", "stubs/icu_norm_cheap.c", "stubs/uthash_model"],
               "assumptions": ["SQLite's rollback / rollback-to restores the previous content (trusted)", "malloc does not fail here (C17)", "arguments are valid and of a fixed small shape"],
               "outside": ["failures detected inside SQL (duplicate detection itself)", "that the rolled-back database equals the prior one"]}


# ------------------------------------------------------------------------------------------ C06
def c06(tier):
    qs = []
    scripts = {"full2": "{1,0},{1,1},{2,0},{2,1}", "sparse": "{1,0},{3,1}", "one": "{4,1}", "empty": "{0,0}"}
    seqs = ["nnnc", "nunc", "unc", "nrua", "nfnc", "nrrc", "nnna", "rnc", "nurnc", "nnunc"] if tier == "quick" else \
           ["".join(x) + e for n in (1, 2, 3) for x in __import__("itertools").product("nufr", repeat=n) if n < 3 or x[0] == "n" for e in "ca"] + ["nnnnc", "nnnna"]
    for sn, sc in scripts.items():
        for cs in (seqs if sn != "empty" else ["nc"]):
            if tier == "quick" and sn in ("one",) and cs not in ("nnnc", "nunc", "nrua"):
                continue
            for fc, fresh in [(f, fr) for f in ((0, 3, 6, 9, 12) if tier == "quick" else range(0, 25)) for fr in ((1,) if f else (0, 1))]:
              qs.append(Q("C06_itr_%s_%s_f%02d%s" % (sn, cs, fc, "" if fresh else "_reuse"), "h06_itr.c", defs={"ROWSCRIPT": sc, "CALLS": '"%s"' % cs, "FAILCALL": fc, "FRESH": fresh}, extra=SQL_EXTRA, libtus=SQL_TUS,
                        unwind=8, unwindset=VAL_REC + ["memcmp.*:8", "live_stmts.*:31", "teardown.*:31", "strcmp.*:80", "strncmp.*:20", "memset.*:700",
                                                       "sqlite3_prepare_v2.*:18", "sqlite3_clear_bindings.*:18", "sqlite3_finalize.*:18", "sqlite3_step.*:18"], mode="func",
                        replay_libs=["-licuio", "-licui18n", "-licuuc", "-licudata"], native_extra=["stubs/icu_norm_cheap.c", "stubs/sqlite_env.c"], object_bits=10, group="h06_itr",
                        bounds={"row script (row_num,name)": sc, "calls": cs, "failing engine call": fc or "none", "next() target": "fresh packet" if fresh else "previous packet reused"},
                        note="iterator state machine vs reference"))
    return qs


META["C06"] = {"files": ["pktitr.c", "loop.c", "packet.c", "map.c"], "functions": ["cif_loop_get_packets", "cif_pktitr_next_packet", "cif_pktitr_update_packet",
               "cif_pktitr_remove_packet", "cif_pktitr_close", "cif_pktitr_abort", "cif_pktitr_free", "cif_loop_get_names_internal"],
               "stubs": ["stubs/sqlite_env.c with a concrete row script for the iterator SELECT", "stubs/icu_str.c", "stubs/icu_norm_cheap.c", "stubs/uthash_model"],
               "assumptions": ["the SELECT returns rows ordered by row_num > 0 with names of the loop (its own contract)", "row scripts and call sequences concrete, enumerated"],
               "outside": ["that the SELECT returns each stored packet exactly once (SQL)", "SQLite's atomic commit / rollback"]}


# ------------------------------------------------------------------------------------------ C04
K_NAMES = {1: "cif_create_block", 2: "cif_get_block", 3: "cif_container_create_frame", 4: "cif_container_get_frame", 5: "cif_container_create_loop",
           6: "cif_container_get_item_loop", 7: "cif_container_set_value", 8: "cif_container_get_value", 9: "cif_container_remove_item",
           10: "cif_loop_add_item", 11: "cif_loop_add_packet", 12: "cif_loop_set_category", 13: "cif_container_get_category_loop", 14: "cif_get_all_blocks", 15: "cif_container_get_all_frames", 20: "screening of codes and names"}


def c04(tier):
    import sql_colmap
    qs = []
    fns = (1, 2, 3, 4, 5, 6, 7, 8, 9, 10, 11, 12, 13, 14, 15, 20)
    for f, bs in [(f, b) for f in fns for b in (range(6) if f == 20 else ((0, 1) if f == 7 else (None,)))]:
        d = {"FN": f, "SENV_COLSTORE": None}
        if bs is not None:
            d["BADSEL" if f == 20 else "ROUTE"] = bs
        qs.append(Q("C04_keys_%s%s" % (K_NAMES[f].replace(" ", "_"), "" if bs is None else "_%d" % bs), "h04_keys.c", defs=d, extra=SQL_EXTRA, libtus=SQL_TUS,
                    gen=lambda wd: sql_colmap.gen(wd, REPO), unwind=8,
                    unwindset=VAL_REC + ["memcmp.*:8", "teardown.*:31", "strcmp.*:900", "strncmp.*:70", "memset.*:700", "sqlite3_prepare_v2.*:40", "step_hook.*:14",
                                         "sqlite3_clear_bindings.*:18", "sqlite3_finalize.*:18", "sqlite3_step.*:18", "memcpy.*:64", "strlen.*:8", "ueq.*:6"],
                    mode="func", replay_libs=["-licuio", "-licui18n", "-licuuc", "-licudata"], native_extra=["stubs/icu_norm_cheap.c", "stubs/sqlite_env.c"],
                    object_bits=10, group="h04_keys", timeout=600 if f == 7 else None,
                    bounds={"function": K_NAMES[f], "engine": "every outcome sequence", "names": "mixed-case concrete names; screening: 6 representative invalid strings"},
                    note="key discipline / screening / result codes / isolation"))
    return qs


META["C04"] = {"files": ["cif.c", "container.c", "loop.c", "utils.c", "internal/sql.h"], "functions": list(K_NAMES.values()),
               "stubs": ["stubs/sqlite_env.c + parameter/result column map extracted from the current sql.h", "stubs/icu_norm_cheap.c (ASCII fold)", "stubs/icu_str.c", "stubs/uthash_model"],
               "assumptions": ["normalisation = ASCII case fold model"],
               "outside": ["everything the SQL schema enforces: uniqueness per container, one scalar loop, cascades on destroy, triggers; multi-call histories"]}


# ------------------------------------------------------------------------------------------ C16
def c16(tier):
    """Safety projection: the safety-mode queries of the other properties plus ownership / global-state harnesses."""
    qs = []
    for w in (1, 0):
      qs.append(Q("C16_locale_%s" % ("init_numb" if w else "autoinit_numb"), "h16_locale.c", defs={"WHICH": w}, extra=ICU_NORM_CHEAP, libtus=["value.c", "map.c", "packet.c", "utils.c"],
                remove=[("value.c", "__CPROVER_file_local_value_c_to_digits"), ("value.c", "__CPROVER_file_local_value_c_format_text_decimal"),
                        ("value.c", "__CPROVER_file_local_value_c_format_text_sci")],
                unwind=3, unwindset=VAL_REC + ["strcmp.*:14", "strlen.*:8", "cpy.*:14", "strtol.*:4", "frac_bits.*:70", "strdup.*:14", "memcpy.*:14", "strcpy.*:14"], mode="safety", replay_libs=ICU_LIBS, native_extra=["stubs/icu_norm_cheap.c"],
                bounds={"entry locale": "C or de_DE (symbolic)", "calls": "cif_value_init_numb (su zero / non-zero), cif_value_autoinit_numb (exact number)",
                        "kernels": "to_digits / format_text_* succeed or fail symbolically"},
                note="numeric locale restored on every path; no fesetround"))
    # ownership / leak checks of the storage API: the C05 harness under CBMC's memory checks (leak, double free, invalid free)
    for q in c05(tier):
        if "create_loop_3" in q.name or "add_packet_2" in q.name:
            continue
        if "_via_" in q.name and q.defs.get("FAILCALL", 0) != 0:
            continue            # the iterator queries re-listed under C05: only the no-engine-failure instances are repeated under memory checks
        q.name = q.name.replace("C05_tx_", "C16_own_"); q.mode = "safety"; q.timeout = 400
        q.note = "storage API under CBMC memory checks: no leak / double free / invalid free on any engine-outcome path"
        qs.append(q)
    # the safety-mode queries of the value / string / buffer harnesses
    for src in (c10, c18, c09, c08, c07, c19, c17, c02):
        for q in src(tier):
            if "_via_" in q.name:
                continue        # already listed through its own family
            if q.mode == "safety" and not q.name.startswith("C19_list_P4") and not ("C17_alloc" in q.name and "_f" in q.name and not q.name.endswith(("_f00", "_f03"))):
                q.name = "C16_via_" + q.name
                qs.append(q)
    return qs


META["C16"] = {"files": ["value.c", "map.c", "packet.c", "utils.c", "parser.c", "cif.c", "container.c", "loop.c", "pktitr.c"],
               "functions": ["every function reached by the listed queries (see queries[].harness)"],
               "stubs": ["as in the originating properties; setlocale = C-standard model"],
               "assumptions": ["malloc does not fail except in the C17-derived queries", "bounds of the originating harnesses"],
               "outside": ["code not reached by any listed query (parser productions and writer beyond the listed units, cif_create/cif_destroy, to_double/to_digits kernels)", "sizes beyond the bounds"]}


# ------------------------------------------------------------------------------------------ C11
def c11(tier):
    qs = []
    for mode in ("func", "safety"):
        qs.append(Q("C11_cascade_%s" % mode, "h11_cascade.c", defs={"NBYTES": 12}, extra=ICU, unwind=14, unwindset=["strcmp.*:14", "memcmp.*:12", "memset.*:200"], mode=mode,
                    replay=True, replay_libs=ICU_LIBS, native_extra=NATIVE_ICU, uthash="real",
                    bounds={"leading bytes": "0..12 symbolic bytes", "prefer_cif2": "-2..21", "force_default_encoding / default_encoding_name / default converter": "symbolic"},
                    note="cif_parse stage 1 (encoding + provisional version) vs decision table"))
    for n, mode, bc in [(k, "func", b) for k in ((0, 1, 2, 10, 11) if tier == "quick" else (0, 1, 2, 3, 9, 10, 11, 12)) for b in ((0, 1) if 0 < k <= 3 else (None,))]:
        qs.append(Q("C11_stage2_N%d%s_%s" % (n, "" if bc is None else "_bom%d" % bc, mode), "h11_stage2.c", defs=dict({"NIN": n, "BOMCASE": 2 if bc is None else bc, "CIF_API_VERIF_BUF_SIZE_INITIAL": 16, "CIF_API_VERIF_BUF_MIN_FILL": 1, "CIF_API_VERIF_LINE_LENGTH": 20}, **({"FIRST_ALL": None} if n > 3 else {})), replay=False,
                    extra=ICU, libtus=["parser.c"], remove=[("parser.c", "__CPROVER_file_local_parser_c_parse_cif"), ("parser.c", "__CPROVER_file_local_parser_c_get_first_char"),
                                                              ("parser.c", "__CPROVER_file_local_parser_c_get_more_chars")], unwind=n + 3,
                    unwindset=["cif_parse_internal.*:170", "u_strncmp.*:12", "memmove.*:34", "memcpy.*:34", "harness.*:14"], mode=mode, replay_libs=ICU_LIBS, native_extra=NATIVE_ICU,
                    kf=["BOM_TEXT_POINTER"],
                    bounds={"input": "%d symbolic 16-bit units%s" % (n, "" if bc is None else (", the first a byte-order mark" if bc else ", the first not a byte-order mark")), "provisional version": "-2, 0, 1, 2", "not_utf8": "symbolic", "error callback": "accepts all or rejects the 1st / 2nd error"},
                    note="cif_parse_internal stage 2 (magic comment, BOM, SET_V1, wrong-encoding) vs oracle; grammar replaced by a recorder"))
    return qs


META["C11"] = {"files": ["ciffile.c", "parser.c"], "functions": ["cif_parse", "cif_parse_internal", "get_first_char", "get_more_chars", "scan_to_ws"],
               "stubs": ["fread (symbolic bytes)", "ucnv_detectUnicodeSignature (documented signature table)", "ucnv_open/getName/close/setToUCallBack (recorders)", "cif_create, cif_parse_internal (recorders)"],
               "assumptions": ["ICU's signature detection follows its documentation"],
               "outside": ["'the same text in any signed encoding yields the same content' (ICU converters)", "the system default encoding"]}


# ------------------------------------------------------------------------------------------ C01 / C03 / C12 (lexical layer)
PARSER_SEAMS = [("parser.c", "__CPROVER_file_local_parser_c_parse_cif"), ("parser.c", "__CPROVER_file_local_parser_c_get_first_char"),
                ("parser.c", "__CPROVER_file_local_parser_c_get_more_chars")]


def tok_queries(tier, mode="func"):
    """Whole next_token (all scan functions inlined): ~4 min / 5 GB per instance at 3 symbolic units, so few instances."""
    qs = []
    L = 3
    if tier == "quick":
        insts = [(3, None, 2, 1, 0), (3, None, 2, 0, 0)]
    else:
        insts = [(3, None, v, p, r) for v in (2, 1) for p in (1, 0) for r in (0, 1)] + [(4, None, 2, 1, 0)]
        pres = {"data": "{'d','A','t','a','_'}", "save": "{'S','a','v','e','_'}", "loop": "{'l','o','O','p','_'}", "stop": "{'s','t','o','P','_'}",
                "glob": "{'g','L','o','b','a','l','_'}", "tri": "{0x27,0x27,0x27}", "text": "{';'}", "quo": "{0x22}"}
        for nm, pre in pres.items():
            if nm in ("data", "save", "loop", "stop", "glob"):
                continue        # keyword prefix + symbolic units: SAT conversion out of memory at 16 GB (reserved words are decided on scan_unquoted and by the C12 scanner queries)
            insts.append((pre.count(",") + 1 + (1 if nm in ("data", "save", "loop", "stop", "glob") else 2), (nm, pre), 2, 1, 0))    # keyword + 2 symbolic units: out of memory at 16 GB
    for (k, pre, v, pok, rej) in insts:
        d = {"KLEN": k, "CIFV": v, "PREVOK": pok, "REJECT": rej, "CIF_API_VERIF_BUF_SIZE_INITIAL": 16, "CIF_API_VERIF_BUF_MIN_FILL": 1, "CIF_API_VERIF_LINE_LENGTH": L}
        if pre:
            d["PREFIX"] = pre[1]
        qs.append(Q("tok_K%d_v%d%s_p%d_r%d_%s" % (k, v, "_" + pre[0] if pre else "", pok, rej, mode), "h01_tok.c", defs=d, extra=ICU, libtus=["parser.c"], remove=PARSER_SEAMS,
                    unwind=k + 3, unwindset=["cif_parse_internal.*:170", "harness.*:%d" % (k + 2), "ref_kw.*:9"], mode=mode, replay=False, timeout=600 if tier == "quick" else 3000,
                    mem_gb=9 if tier == "quick" else 16,
                    bounds={"buffer": "%d code units%s, full 16-bit alphabet" % (k, (", first %d fixed to %s" % (pre[1].count(",") + 1, pre[0])) if pre else ""), "dialect": "CIF %s" % ("2.0" if v == 2 else "1.1"),
                            "previous token": "whitespace %srequired before the next token" % ("not " if pok else ""), "error callback": ["accepts all", "rejects the 1st error", "rejects the 2nd error"][rej], "CIF_LINE_LENGTH": L},
                    note="real next_token + all scan_* vs reference tokenizer (one token)"))
    return qs


SCAN_NAMES = {1: "scan_ws", 2: "scan_to_eol", 3: "scan_to_ws", 4: "scan_unquoted", 5: "scan_delim_string", 6: "scan_text"}


def scan_queries(tier, mode="func"):
    qs = []
    L = 3
    for fn in range(1, 7):
        for v in (2, 1):
            k = (5 if fn in (4, 5, 6) else 5) if tier == "quick" else (7 if fn in (4, 5, 6) else 6)
            if tier == "quick" and fn == 5 and v == 2 and mode == "func":
                k = 7          # a triple-quoted string with delimiter characters on both sides of a line terminator needs 7 units (~90 s)
            d = {"KLEN": k, "CIFV": v, "SCANFN": fn, "CIF_API_VERIF_BUF_SIZE_INITIAL": 16, "CIF_API_VERIF_BUF_MIN_FILL": 1, "CIF_API_VERIF_LINE_LENGTH": L}
            qs.append(Q("scan_%s_K%d_v%d_%s" % (SCAN_NAMES[fn], k, v, mode), "h01_scan.c", defs=d, extra=ICU, libtus=["parser.c"], remove=PARSER_SEAMS,
                        unwind=k + 3, unwindset=["cif_parse_internal.*:170", "harness.*:%d" % (k + 2), "ref_kw.*:9"], mode=mode, replay=False,
                        timeout=900 if tier != "quick" else None, mem_gb=8,
                        bounds={"function": SCAN_NAMES[fn], "buffer": "%d code units, full 16-bit alphabet" % k, "dialect": "CIF %s" % ("2.0" if v == 2 else "1.1"),
                                "error callback": "accept all / reject 1st / reject 2nd (symbolic)", "CIF_LINE_LENGTH": L},
                        note="real scan function vs unit reference"))
    return qs


def text_queries(tier):
    """The real decode_text (folding / prefix decoding) against the reference decoder, for all text-field bodies of K units."""
    qs = []
    for v, k in ([(2, 4), (2, 5), (1, 4)] if tier == "quick" else [(2, 3), (2, 4), (2, 5), (2, 6), (2, 7), (2, 8), (1, 4), (1, 6)]):
        qs.append(Q("text_decode_K%d_v%d" % (k, v), "h01_text.c", defs={"KLEN": k, "CIFV": v, "CIF_API_VERIF_BUF_SIZE_INITIAL": 16, "CIF_API_VERIF_BUF_MIN_FILL": 1},
                    extra=ICU_NORM_CHEAP, libtus=["parser.c", "value.c", "map.c", "packet.c", "utils.c"], remove=PARSER_SEAMS, unwind=k + 3,
                    unwindset=VAL_REC + ["cif_parse_internal.*:170", "ref_decode_text.*:%d" % (k + 2), "u_strncmp.*:%d" % (k + 2), "u_strncpy.*:%d" % (k + 2), "memcmp.*:8"], mode="func", replay=False,
                    uthash="model", timeout=900 if tier != "quick" else 400, mem_gb=8,
                    bounds={"function": "decode_text", "text-field body": "%d code units over the CIF %s value characters (no CR), contents symbolic" % (k, "2.0" if v == 2 else "1.1"),
                            "options": "defaults of the dialect (CIF 2.0: unfolding and prefix removal on; CIF 1.1: off)", "target": "new or existing value object (symbolic)"},
                    note="real decode_text vs reference decoder of the folding / prefix protocols"))
    return qs


VALUE_SCRIPTS = ["(VQ)", "()", "{}", "(UDT)", "(V(Q)V)", "{KV}", "{KVKQ}", "({KV}V)"]      # a table nested in a table: recursion bound of cif_value_free not provable (symbolic kinds): not claimed
VALUE_SCRIPTS_MORE = ["((V))", "(VVVV)", "{KVKVKV}", "(({KV}))", "(T{KT})"]      # a list nested in a table ("{K(V)}") gives no verdict in 600 s: not claimed
VALUE_DEFECTS = [("list_unterminated_eof", "(VV", "136", 2, 3), ("list_unterminated_name", "(VN", "136", 1, 2), ("table_unterminated", "{KVN", "136", 1, 3),
                 ("table_missing_value", "{K}", "133", 1, 3),       # ("{V}": the search for a colon inside the symbolic token makes the token stream symbolic - no verdict) ("table_stray_quoted", "{Q}", "137", 0, 3),
                 ("table_stray_list", "{KV(V)}", "137", 1, 7), ("nested_unterminated", "({KV)", "136", 1, 5),
                 ("table_stray_after_entry", "{KQQ}", "137", 1, 5, 1)]


def value_queries(tier, prefix, defects):
    """The real parse_value / parse_list / parse_table over token scripts (contents of the tokens symbolic)."""
    qs = []
    items = [(sc, None) for sc in (VALUE_SCRIPTS + (VALUE_SCRIPTS_MORE if tier != "quick" else []))] if not defects else [(d[1], d) for d in VALUE_DEFECTS]
    if not defects:
        items += [(sc, "reuse") for sc in ["U", "D", "V", "Q", "T", "(V)", "{KV}"]]       # the target still holds the previous packet's value
    for sc, d in items:
        defs = {"SCRIPT": '"%s"' % sc, "EXISTING": 1 if (len(sc) % 2) else 0}
        reuse = (d == "reuse")
        if reuse:
            d = None
            defs["EXISTING"] = 2
        if d:
            defs.update({"EXPECT_ERRS": d[2], "EXPECT_TOP": d[3], "EXPECT_CONSUMED": d[4]})
            if len(d) > 5:
                defs["LIVE_KEY_AT"] = d[5]
        nm = (("value_reuse_" if reuse else "value_") + sc.replace("(", "l").replace(")", "j").replace("{", "t").replace("}", "e")) if not d else ("defect_" + d[0])
        qs.append(Q("%s_%s" % (prefix, nm), "h01_value.c", defs=defs, extra=ICU_NORM_CHEAP, libtus=PROD_TUS, remove=[("parser.c", "__CPROVER_file_local_parser_c_next_token"), ("value.c", "cif_value_set_quoted"), ("value.c", "cif_value_try_quoted")],
                    unwind=len(sc) + 4, unwindset=[e.replace(":2", ":4") for e in VAL_REC] + ["harness.*:162", "memset.*:2000", "memcmp.*:8", "check:5", "skip:6",
                                                            "__CPROVER_file_local_parser_c_parse_value:5", "__CPROVER_file_local_parser_c_parse_list:4", "__CPROVER_file_local_parser_c_parse_table:4"],
                    mode="func", replay=False, uthash="model", object_bits=11, timeout=600 if tier == "quick" else 1800, mem_gb=8,
                    bounds={"token script": sc, "token contents": "two symbolic code units per value / key token", "target": ["new value object", "existing value object (unknown)", "existing value object holding a character value (as in a loop's second packet)"][defs["EXISTING"]]},
                    note="real parse_value / parse_list / parse_table over a token script: " + ("the tree the tokens denote" if not d else "defect class: code and recovery")))
    return qs


def c01(tier):
    qs = scan_queries(tier) + tok_queries(tier) + text_queries(tier) + value_queries(tier, "C01", False)
    for q in qs:
        if not q.name.startswith("C01_"):
            q.name = "C01_" + q.name
    return qs


PROD_TUS = ["parser.c", "value.c", "map.c", "packet.c", "utils.c"]
PROD_REMOVE = [("parser.c", "__CPROVER_file_local_parser_c_next_token"), ("parser.c", "__CPROVER_file_local_parser_c_parse_value")]


def prod_query(name, script, extra_defs, note, tier):
    d = {"SCRIPT": '"%s"' % script, "ENTRY_SKIP": 0, "MAXFRAMEDEPTH": 1}
    d.update(extra_defs)
    n = len(script)
    return Q(name, "h15_prod.c", defs=d, extra=ICU_NORM_CHEAP, libtus=PROD_TUS, remove=PROD_REMOVE, unwind=n + 4,
             unwindset=VAL_REC + ["harness.*:%d" % (13 * (n + 3)), "__CPROVER_file_local_parser_c_parse_container:3", "memset.*:2000", "memcmp.*:8", "in_zone.*:10", "require.*:10"],
             mode="func", replay=False, object_bits=11, timeout=600 if tier == "quick" else 1800, mem_gb=8,
             bounds={"token script": script, "handler program": "symbolic answer per callback site" if "EXPECT_ERRS" not in extra_defs else "all continue",
                     "entry skip depth": d["ENTRY_SKIP"], "store": "recording; syntax-only mode symbolic"},
             note=note)


WELLFORMED = ["NV", "NVNV", "LNVV", "LNNVVVV", "NVLNV", "HNVSNV"]
DEFECTS = [("missing_value", "N", {"EXPECT_ERRS": "133", "EXPECT_SET": 1}), ("missing_value2", "NNV", {"EXPECT_ERRS": "133", "EXPECT_SET": 2}),
           ("unexpected_value", "V", {"EXPECT_ERRS": "134", "EXPECT_SET": 0}), ("unexpected_delim", ")NV", {"EXPECT_ERRS": "135", "EXPECT_SET": 1}),
           ("unexpected_term", "SNV", {"EXPECT_ERRS": "124", "EXPECT_SET": 1}), ("eof_in_frame", "HNV", {"EXPECT_ERRS": "126", "EXPECT_SET": 1}),
           ("nested_frame", "HHNVSS", {"EXPECT_ERRS": "123,124", "EXPECT_SET": 1}), ("frame_not_allowed", "HNVS", {"EXPECT_ERRS": "122", "MAXFRAMEDEPTH": 0, "EXPECT_SET": 1}),
           ("null_loop", "LV", {"EXPECT_ERRS": "37,134"}), ("empty_loop", "LN", {"EXPECT_ERRS": "36", "EXPECT_ADDP": 0}),
           ("partial_packet", "LNNV", {"EXPECT_ERRS": "53", "EXPECT_ADDP": 1}), ("partial_packet2", "LNNVVV", {"EXPECT_ERRS": "53", "EXPECT_ADDP": 2}),
           ("partial_packet3", "LNNNVVVVNV", {"EXPECT_ERRS": "53", "EXPECT_ADDP": 2, "EXPECT_SET": 1}), ("dup_item", "NVNV", {"EXPECT_ERRS": "41", "DUP_AT": 2, "EXPECT_SET": 1}),
           ("dup_loop_name", "LNNVV", {"EXPECT_ERRS": "41", "DUP_AT": 2, "EXPECT_ADDP": 1}),
           ("dup_in_header", "LNNVV", {"EXPECT_ERRS": "41", "SAME_AT": 2, "SAME_AS": 1, "EXPECT_ADDP": 1}),
           ("dup_in_header_rev", "LNNVV", {"EXPECT_ERRS": "41", "SAME_AT": 2, "SAME_AS": 1, "SAME_REV": None, "EXPECT_ADDP": 1}),
           ("dup_in_header3", "LNNNVVVVVV", {"EXPECT_ERRS": "41", "SAME_AT": 3, "SAME_AS": 1, "EXPECT_ADDP": 2})]


def script_sites(sc):
    """(kind, pos) of every handler callback site of a well-formed script (mirrors the geometry functions of h15_prod.c)."""
    E_CSTART, E_CEND, E_ITEM, E_LSTART, E_LEND, E_PSTART, E_PEND = 0, 1, 4, 5, 6, 7, 8
    n = len(sc); sites = [(E_CSTART, -1)]
    isval = lambda c: c in "VQT"
    i = 0
    while i < n:
        c = sc[i]
        if c == "N" and i + 1 < n and isval(sc[i + 1]):
            sites.append((E_ITEM, i + 1)); i += 2; continue
        if c == "L":
            b = i + 1
            while b < n and sc[b] == "N":
                b += 1
            nc = b - (i + 1); t = b
            while t < n and isval(sc[t]):
                t += 1
            sites.append((E_LSTART, b))
            j = b
            while j + nc <= t:
                sites.append((E_PSTART, j)); sites += [(E_ITEM, j + q) for q in range(nc)]; sites.append((E_PEND, j + nc - 1)); j += nc
            sites.append((E_LEND, t)); i = t; continue
        if c == "H":
            sites.append((E_CSTART, i))
        if c == "S":
            sites.append((E_CEND, i))
        i += 1
    sites.append((E_CEND, n))
    return sites


def c15(tier):
    qs = []
    scripts = WELLFORMED if tier == "quick" else WELLFORMED + ["NVNVNV", "LNVVV", "LNNVVVVVV", "HNVLNVVSNV", "LNVVLNVV", "HSHNVS", "NVLNVVNV"]
    answers = {"skipcur": -1, "skipsib": -2, "end": -3, "err7": 7}
    for sc in scripts:
        for so in (0, 1):
            qs.append(prod_query("C15_prod_%s_allcont_so%d" % (sc, so), sc, {"DEV_KIND": 99, "DEV_POS": 0, "DEV_ANS": 0, "SYNTAX_ONLY": so}, "all handlers continue", tier))
        for (k, p) in script_sites(sc):
            for an, av in answers.items():
                qs.append(prod_query("C15_prod_%s_k%d_p%d_%s" % (sc, k, p, an), sc, {"DEV_KIND": k, "DEV_POS": p, "DEV_ANS": "(%d)" % av, "SYNTAX_ONLY": 0},
                                     "one handler deviates at callback site (kind %d, token %d) with %s" % (k, p, an), tier))
    for sc in (["NVNV", "LNVV"] if tier == "quick" else ["NVNV", "LNVV", "HNVSNV"]):
        for d0 in (1, 2):
            qs.append(prod_query("C15_prod_%s_skip%d" % (sc, d0), sc, {"ENTRY_SKIP": d0, "DEV_KIND": 99, "DEV_POS": 0, "DEV_ANS": 0, "SYNTAX_ONLY": 0}, "productions entered while skipping", tier))
    # item-only scripts keep a fully symbolic handler program (they finish)
    for sc in ("NV", "NVNV"):
        qs.append(prod_query("C15_prod_%s_symbolic" % sc, sc, {}, "symbolic handler program (every assignment of answers to callback sites)", tier))
    return qs


def prod_defect_queries(tier, prefix):
    out = []
    for (nm, sc, ex) in DEFECTS:
        for so in (0, 1):
            d = dict(ex); d.update({"DEV_KIND": 99, "DEV_POS": 0, "DEV_ANS": 0, "SYNTAX_ONLY": so})
            if so and ("DUP_AT" in d or "SAME_AT" in d):
                continue     # duplicate detection needs the store (syntax-only mode has no container to ask)
            out.append(prod_query("%s_defect_%s_so%d" % (prefix, nm, so), sc, d, "grammatical defect class: code and recovery", tier))
    return out


META["C15"] = {"files": ["parser.c"], "functions": ["parse_container", "parse_item", "parse_loop", "parse_loop_header", "parse_loop_packets"],
               "stubs": ["next_token = contract stub over a concrete token script", "parse_value = contract stub", "storage API = recording store", "real value.c / map.c / packet.c"],
               "assumptions": ["token scripts concrete per instance (enumerated)", "values are scalars at this level (lists / tables are parse_value's business)",
                               "SKIP_SIBLINGS suppresses ALL later children of the same parent in document order"],
               "outside": ["parse_cif's block loop", "interplay with the real scanner beyond the token seam", "composition over whole documents (argued)"]}


def c12(tier):
    qs = scan_queries(tier) + tok_queries(tier)
    for q in qs:
        q.name = "C12_" + q.name
    return qs + prod_defect_queries(tier, "C12") + value_queries(tier, "C12", True)


def c03(tier):
    # the same units under CBMC's memory-safety / UB checks (arbitrary code units incl. controls and surrogates, callback
    # accepting or rejecting) + the functional contract of the result code and callback arguments + the fill step of C08
    qs = scan_queries(tier, mode="safety") + [q for q in tok_queries(tier) if "_p1_" in q.name][:1] + [q for q in c08(tier) if q.mode == "safety"]
    # the start-up of cif_parse_internal: every error callback there gets line >= 1 and a text that is NULL or readable
    qs += [q for q in c11(tier) if "_stage2_" in q.name and "_bom" in q.name]
    # list / table productions on malformed token scripts under CBMC's memory checks (use after free, double free, leaks in the recovery paths)
    for q in value_queries(tier, "vdef", True):
        if "LIVE_KEY_AT" in q.defs:
            q.name = q.name.replace("vdef_defect_", "value_defect_") + "_live"; qs.append(q)      # explicit liveness assertion, run without the leak check
            continue
        q.mode = "safety"; q.name = q.name.replace("vdef_defect_", "value_defect_") + "_safety"; qs.append(q)
    for q in qs:
        q.name = "C03_" + q.name
    return qs


META["C01"] = {"files": ["parser.c"], "functions": ["next_token", "scan_ws", "scan_to_ws", "scan_to_eol", "scan_unquoted", "scan_delim_string", "scan_triple_delim_string", "scan_text", "decode_text", "parse_value", "parse_list", "parse_table", "cif_parse_internal (table set-up)"],
               "stubs": ["get_first_char / get_more_chars = contract for an exhausted source (C08)", "parse_cif = harness body", "stubs/icu_str.c", "stubs/icu_norm_cheap.c and uthash model (decode_text queries link value.c)"],
               "assumptions": ["one token / one text-field body per query; composition over a document is by the token / production contracts (argued)", "CIF_LINE_LENGTH shrunk by hook", "no CR inside a text-field body (EOL-normalised buffer, C08)"],
               "outside": ["byte -> UChar decoding", "tokens longer than the bound", "characters the reference tokenizer leaves unspecified get generic assertions only",
                           "parse_cif and the storage of parsed content", "composite values beyond the enumerated token scripts (list / table nested in a table: no verdict)", "non-default folding / prefix options"]}


# ------------------------------------------------------------------------------------------ C02 / C13
WFN_NAMES = {1: "write_unquoted", 2: "write_quoted", 3: "write_triple_quoted", 4: "write_text"}


def gen_write_ctx(wd):
    """write_context_t, extracted from the current ciffile.c (the dispatch harness links ciffile.c as a separate TU)."""
    src = open(os.path.join(REPO, "src", "ciffile.c")).read()
    m = re.search(r"typedef struct \{[^}]*\} write_context_t;", src)
    u = re.search(r"typedef struct \{(?:[^}]|\n)*?\} uchar_stream_t;", src)
    fw = re.search(r"#define\s+FOLDING_WINDOW\s+(\d+)", src); pl = re.search(r"#define\s+PREFIX_LENGTH\s+(\d+)", src)
    open(os.path.join(wd, "write_context_gen.h"), "w").write("/* generated from /repo/src/ciffile.c */\n#include <unicode/ucnv.h>\n" + (u.group(0) if u else "#error uchar_stream_t not found") + "\n"
                                                            + (m.group(0) if m else "#error write_context_t not found") + "\n"
                                                            + ("#define FOLD_WINDOW_GEN %s\n" % fw.group(1) if fw else "#error FOLDING_WINDOW not found\n")
                                                            + ("#define PREFIX_LENGTH_GEN %s\n" % pl.group(1) if pl else "#error PREFIX_LENGTH not found\n")
                                                            + fold_target_define(src))


def fold_target_define(src):
    """The target length write_text passes to fold_line, as an expression over CIF_LINE_LENGTH (textual extraction from the current source)."""
    m = re.search(r"int\s+target_length\s*=\s*([^;]+);", src)
    if not m:
        return "#error target_length not found\n"
    e = m.group(1).replace("LINE_LENGTH(context)", "CIF_LINE_LENGTH").replace("FOLDING_WINDOW", "FOLD_WINDOW_GEN").replace("PREFIX_LENGTH", "PREFIX_LENGTH_GEN")
    return "#define FOLD_TARGET_GEN (%s)\n" % e


WRITER_SEAMS = [("ciffile.c", "__CPROVER_file_local_ciffile_c_" + f) for f in ("write_unquoted", "write_quoted", "write_triple_quoted", "write_text")]


def write_queries(tier, version, prefix):
    qs = []
    WL = 20
    inst = []
    for wfn in ((1, 2, 3, 4) if version == 2 else (1, 2, 4)):
        for k in ((2, 3) if tier == "quick" else (1, 2, 3, 4, 5)):
            if wfn == 3 and k < 2:
                continue
            if wfn == 4 and k > (2 if tier == "quick" else 4):
                continue
            inst.append((wfn, k, 0))
    # a line longer than the limit (folding is forced): K symbolic units, 19 concrete fillers, one symbolic unit
    # a line longer than the limit (folding is forced): K symbolic units, then concrete fillers, then `tail` symbolic units
    inst = [(w, k, f, 0) for (w, k, f) in inst]      # writer-level forced-folding instances (fillers beyond the line limit) are not run: 9 min at best, engine out of memory on the final tree
    for (wfn, k, fill, tail) in inst:
        WL = 16 if fill else 20            # the smallest limit the folding code accepts (target length LL-9 > window 6) keeps the forced-folding instances small
        tmo = 600 if tier == "quick" else 3600
        n = k + fill + tail
        sm = 2 * n + 28 if fill else 4 * n + 20
        segs = 5 if fill else 2            # folded segments per logical line: lines shorter than the limit are not split
        qs.append(Q("%s_%s_K%d%s" % (prefix, WFN_NAMES[wfn], k, "_F%d_T%d" % (fill, tail) if fill else ""), "h02_writer.c",
                    defs={"KLEN": k, "FILL": fill, "TAIL": tail, "WFN": wfn, "WVERSION": version, "CIF_API_VERIF_LINE_LENGTH": WL, "SINK_MAX": sm},
                    extra=["stubs/icu_str.c", "stubs/ustdio_sink.c"], libtus=["utils.c", "value.c", "map.c", "packet.c"], unwind=n + 4,
                    unwindset=VAL_REC + ["u_fprintf.*:%d" % (n + 12), "ref_kw.*:9", "strlen.*:12", "~ciffile.c~while (*tok != 0):%d" % segs,
                                         "~ciffile.c~for (tok = text, next_tok = tok; tok != NULL; tok = next_tok):%d" % (min(n, k + tail + 1) + 2)]
                    + ["%s.*:%d" % (f, sm + 2) for f in ("harness", "ref_decode_text", "ref_scan_text", "ref_scan_delim", "ref_scan_ws", "ref_scan_unquoted")],
                    mode="func", replay_libs=ICU_LIBS, native_extra=["stubs/ustdio_sink.c"], uthash="model", mem_gb=(30 if fill else 10), timeout=tmo,
                    kf=["TRIPLE_QUOTED_COLUMN", "TEXT_TRAILING_NEWLINE", "PREFIX_NO_FOLD_OVERLENGTH"],
                    bounds={"writer": WFN_NAMES[wfn], "value text": "%d symbolic code units over the CIF %s value characters (no CR)%s" % (k + tail, "2.0" if version == 2 else "1.1", ", then %d concrete 'a'%s" % (fill, ", then %d symbolic" % tail if tail else "") if fill else ""),
                            "start column": "0..%d symbolic" % WL, "CIF_LINE_LENGTH": WL},
                    note="presentation writer (arguments assumed to meet oracles/writer_contract.h) -> in-memory sink -> reference scanner (+ text-field decoder)"))
    for (k, fill) in (((1, 0), (2, 0), (3, 0), (4, 0), (1, 15), (2, 13)) if tier == "quick" else ((1, 0), (2, 0), (3, 0), (4, 0), (5, 0), (6, 0), (1, 15), (2, 15), (2, 13), (2, 12))):      # (2, 22): SAT conversion out of memory at 10 GB
        WL = 16 if fill else 20
        n = k + fill + (1 if fill else 0)
        qs.append(Q("%s_dispatch_K%d%s" % (prefix, k, "_F%d" % fill if fill else ""), "h02_dispatch.c", defs={"KLEN": k, "FILL": fill, "WVERSION": version, "CIF_API_VERIF_LINE_LENGTH": WL},
                    extra=["stubs/icu_str.c"], libtus=["ciffile.c", "utils.c", "value.c", "map.c", "packet.c"], remove=WRITER_SEAMS, gen=gen_write_ctx, unwind=n + 3,
                    unwindset=VAL_REC + ["ref_kw.*:9", "cif_validate_cif11_characters.0:100"], object_bits=9,
                    mode="func", replay_libs=ICU_LIBS, uthash="model", mem_gb=8, timeout=600 if tier == "quick" else 3000,
                    bounds={"entry": "write_char", "value text": "%d symbolic code units%s" % (k + (1 if fill else 0), ", with %d concrete 'a' between the last two" % fill if fill else ""),
                            "quoted flag / allow_text / start column": "symbolic", "CIF_LINE_LENGTH": WL},
                    note="write_char -> cif_analyze_string -> choice of writer; writers are stubs asserting oracles/writer_contract.h"))
    for k in ((3,) if tier == "quick" else (2, 3, 4)):
        qs.append(Q("%s_fold_call_K%d" % (prefix, k), "h02_foldcall.c", defs={"KLEN": k, "CIF_API_VERIF_LINE_LENGTH": 20}, extra=ICU_NORM_CHEAP + ["stubs/ustdio_sink.c"],
                    libtus=["ciffile.c", "utils.c", "value.c", "map.c", "packet.c"], remove=[("ciffile.c", "__CPROVER_file_local_ciffile_c_fold_line")], gen=gen_write_ctx,
                    unwind=k + 4, unwindset=VAL_REC + ["u_fprintf.*:%d" % (k + 12), "strlen.*:12"], mode="func", replay=False, uthash="model", mem_gb=8,
                    bounds={"entry": "write_text", "text": "%d symbolic code units (newlines included)" % k, "fold / prefix / start column": "symbolic"},
                    note="the arguments write_text passes to fold_line (fold_line = checking stub)"))
    for (nl, wl) in ([(19, 16)] if tier == "quick" else [(19, 16), (24, 16), (24, 20)]):
        qs.append(Q("%s_fold_line_N%d_L%d" % (prefix, nl, wl), "h02_fold.c", defs={"NL": nl, "CIF_API_VERIF_LINE_LENGTH": wl}, extra=ICU_NORM_CHEAP,
                    libtus=["ciffile.c", "utils.c", "value.c", "map.c", "packet.c"], gen=gen_write_ctx, unwind=nl + 3, unwindset=VAL_REC + ["u_strlen.*:%d" % (nl + 2)],
                    mode="safety", replay_libs=ICU_LIBS, native_extra=["stubs/icu_norm_cheap.c"], uthash="model", mem_gb=8, timeout=600 if tier == "quick" else 1800, kf=["FOLD_SEGMENT_OVERLENGTH", "FOLD_SEMI_RUN"],
                    bounds={"function": "fold_line", "line": "1..%d symbolic code units (no newline)" % nl, "target / window": "LINE_LENGTH - 8 / FOLDING_WINDOW from the source", "CIF_LINE_LENGTH": wl, "prefixing": "symbolic"},
                    note="fold points: continuation never starts with ';' unless prefixed, no split surrogate pair, physical line within the limit"))
    if version == 2:
        # composite values: real write_item / write_list / write_table / write_numb with the leaf writer stubbed by its shown behaviour
        shapes = {0: "[ ]", 1: "[ a b ]", 2: "[ [ a ] ? . 1.5 ]", 3: "{ 'k':a }", 4: "{ 'k':1.5 }", 5: "{ 'k':{ 'q2':a } }", 6: "{ 'k':[ a ] }", 7: "{ 'k':? }", 8: "[ { 'k':a } b ]", 9: "1.5"}   # 5 and 6 are skipped below
        # (element length, key length, line limit): long leaves at limit 20; key-length boundaries at limit 8 (long keys make the
        # normalisation of the key during the build of the table dominate: key of 12 at limit 20 gave no verdict in 600 s)
        lens = [(2, 2, 20, 1), (17, 2, 20, 1), (2, 3, 8, 1), (2, 4, 8, 1)] if tier == "quick" else [(2, 2, 20, 1), (17, 2, 20, 1), (20, 2, 20, 1), (2, 2, 8, 1), (2, 3, 8, 1), (2, 4, 8, 1), (2, 5, 8, 1), (5, 3, 8, 1)]
        # key presented with a triple delimiter (kd = 3), and keys that fill a line by themselves so that the colon can never follow
        # (6 + 2 = 8, 6 + 6 = 12: the table must be refused with CIF_DISALLOWED_VALUE); table shapes only
        lens += [(2, 2, 12, 3), (2, 6, 12, 3), (2, 6, 8, 1)] if tier == "quick" else [(2, 2, 12, 3), (2, 3, 12, 3), (2, 5, 12, 3), (2, 6, 12, 3), (2, 6, 8, 1), (2, 7, 8, 1), (2, 2, 20, 3)]
        for sh, desc in shapes.items():
            for (el, kl, WL, kd) in lens:
                if sh in (0, 9) and (el, kl, WL, kd) != (2, 2, 20, 1):
                    continue
                if sh in (0, 1, 2, 9) and (kl != 2 or WL != 20 or kd != 1):
                    continue
                if kd == 3 and sh == 8 and WL != 20:
                    continue
                if sh in (5, 6):
                    continue            # a table or list nested inside a table: engine error / no verdict after 15-20 min in either tier - not claimed
                if sh == 8 and WL != 20:
                    continue
                sm = desc.count("a") * el + desc.count("b") * el + desc.count("'k'") * (kl + 2 * kd + 1) + 3 * len(desc.split()) + 16
                qs.append(Q("%s_struct_S%d_E%d_K%d_L%d%s" % (prefix, sh, el, kl, WL, "_D3" if kd == 3 else ""), "h02_struct.c", defs={"SSHAPE": sh, "ELEN": el, "KEYLEN": kl, "KEYDELIM": kd, "CIF_API_VERIF_LINE_LENGTH": WL, "SINK_MAX": sm},
                            extra=ICU_NORM_CHEAP + ["stubs/ustdio_sink.c"], libtus=["ciffile.c", "utils.c", "value.c", "map.c", "packet.c"], remove=[("ciffile.c", "__CPROVER_file_local_ciffile_c_write_char")],
                            gen=gen_write_ctx, unwind=max(kl, 3) + 3, unwindset=VAL_REC + ["harness.*:%d" % (sm + 2), "word.*:%d" % (el + 2), "ex_word.*:%d" % (el + 2), "__CPROVER_file_local_ciffile_c_write_char.*:%d" % (max(el, kl) + 2), "u_fprintf.*:26", "strlen.*:12", "memcmp.*:%d" % (2 * kl + 4), "u_strlen.*:%d" % (max(el, kl) + 2), "u_strcpy.*:%d" % (max(el, kl) + 2), "u_strncpy.*:%d" % (max(el, kl) + 2), "u_countChar32.*:%d" % (max(el, kl) + 2),
                                                                            "__CPROVER_file_local_ciffile_c_write_item:4", "__CPROVER_file_local_ciffile_c_write_list:3", "__CPROVER_file_local_ciffile_c_write_table:3"],
                            mode="func", replay_libs=ICU_LIBS, native_extra=["stubs/icu_norm_cheap.c", "stubs/ustdio_sink.c"], uthash="model", mem_gb=8, object_bits=10,
                            timeout=600 if tier == "quick" else 2400, kf=["NUMBER_AFTER_KEY_NOWRAP", "TABLE_KEY_COLON_NO_ROOM"],
                            bounds={"entry": "write_item", "value shape": desc, "leaf texts": "words of %d characters, key of %d presented with %d delimiter character(s) on each side" % (el, kl, kd), "start column": "0..%d symbolic" % WL, "CIF_LINE_LENGTH": WL},
                            note="write_item / write_list / write_table / write_numb with write_char = stub behaving as the writers were shown to; output split into tokens"))
    return qs


def c02(tier):
    return write_queries(tier, 2, "C02")


def c13(tier):
    return write_queries(tier, 1, "C13")


META["C02"] = {"files": ["ciffile.c", "utils.c"], "functions": ["write_item", "write_list", "write_table", "write_numb", "write_char", "write_unquoted", "write_quoted", "write_triple_quoted", "write_text", "fold_line",
                                                              "write_literal", "write_uliteral", "write_newline", "cif_analyze_string", "cif_is_reserved_string", "cif_value_get_text", "cif_validate_cif11_characters"],
               "stubs": ["stubs/ustdio_sink.c (u_fprintf / u_fputc in-memory model for exactly the conversions ciffile.c uses; any other conversion is an assertion failure)",
                         "stubs/icu_str.c (loop versions of the ICU string functions)",
                         "dispatch queries: the four presentation writers are stubs that assert oracles/writer_contract.h",
                         "read-back = reference scanners of oracles/ref_tokenizer.h (each shown equivalent to the real scan function by the C01 unit queries) + reference text-field decoder oracles/ref_textfield.h"],
               "assumptions": ["CIF_LINE_LENGTH = 20 (15 in the forced-folding instances) via the CIF_API_VERIF_LINE_LENGTH hook", "value text of concrete length, contents symbolic; no CR; CIF 2.0 characters restricted to U+09, U+0A, U+20-7E, U+A0-D7FF (no surrogate pairs)",
                               "writer queries assume the writer contract; the dispatch queries prove write_char establishes it"],
               "outside": ["UTF-8 encoding of the output and the version comment (ICU, write_cif_start)", "the walk that feeds the writer (C14) and the storage below it", "container and loop headers / data names (write_container_start, write_loop_start, write_item's name part); composite values beyond the enumerated shapes; number formatting (C10)",
                           "values longer than the stated lengths; folding at the real 2048 limit is represented by the shrunk limit", "the real parser end-to-end: the read-back uses the reference scanners and the reference decoder, which the C01 queries show equivalent to scan_* and decode_text within their bounds",
                           "runs of semicolons as long as a line"]}
META["C13"] = META["C02"]

REG = {"C01": c01, "C02": c02, "C13": c13, "C03": c03, "C12": c12, "C15": c15, "C04": c04, "C11": c11, "C16": c16, "C05": c05, "C06": c06, "C17": c17, "C20": c20, "C10": c10, "C18": c18, "C09": c09, "C08": c08, "C14": c14, "C19": c19, "C07": c07}


def for_property(pid, tier):
    if pid not in REG:
        raise SystemExit("no check registered for %s" % pid)
    return REG[pid](tier)

MANI = {}
NA = {}
MANI["C20"] = {
    "text": "Exhaustive over the finite set of result codes #defined in the current cif.h: a CBMC query with a symbolic code index shows "
            "every code < cif_nerr, non-empty message, distinct messages, empty slots for undefined codes (no shift), and each message "
            "contains the distinguishing keywords of its code.",
    "note": "code list extracted textually from cif.h at run time; 'describes that very condition' is judged by the loose keyword oracle "
            "oracles/errlist_keywords.json written from the @brief text of each code"}

MANI["C10"] = {
    "text": "Bounded model checking of the real cif_value_parse_numb against a reference parser of the numeric grammar: acceptance, "
            "CIF_INVALID_NUMBER + untouched value on rejection, sign/digits/scale/su decomposition on acceptance, for ALL strings of 16-bit "
            "code units up to the stated length, plus structured long-exponent inputs with signed-overflow checks.",
    "note": "strings <= 8 (quick) / 10 (thorough) units; malloc succeeds; correct rounding of to_double/to_digits and the formatters are "
            "claimed only where a query for them is listed in evidence; cif_value_autoinit_numb (libc sprintf) is outside"}
MANI["C18"] = {
    "text": "Bounded model checking of the real cif_analyze_string, cif_is_reserved_string, cif_value_set_quoted/try_quoted against "
            "reference computations written from cif.h, for all strings up to the stated length x both flags x length limits 8..2048.",
    "note": "strings <= 5..8 units (see evidence); ICU string helpers replaced by exact models (validated against real ICU in setup); "
            "permissive where cif.h is silent (blanks at end of string, VT as whitespace)"}
MANI["C09"] = {
    "text": "Bounded model checking of the real validity screening (cif_normalize_name/_item_name/_table_index, cif_is_valid_name, "
            "cif_has_disallowed_chars, cif_has_whitespace) against a reference predicate written from the property text, for ALL strings of "
            "16-bit units up to the bound with the line limit shrunk so both sides of the length boundary are covered; plus the "
            "cif_normalize pipeline over the ICU buffer protocol, and (where listed in evidence) table/packet key matching.",
    "note": "normalisation itself is ICU's: unorm_normalize/u_strFoldCase are replaced by models (identity + ASCII fold, or tables "
            "generated from the real ICU over a finite alphabet); matching inside SQL is outside; C1 controls / U+FEFF undecided by the text are not asserted"}

MANI["C08"] = {
    "text": "Inductive bounded model checking of the scan-buffer fill: ONE call of the real get_more_chars from an ARBITRARY valid scanner "
            "state (arbitrary buffer content, consumption point, token start, pending-CR flag) with a character source returning an "
            "arbitrary chunk; post-state = old logical buffer ++ EOL-normalisation of exactly the units read (CR LF / CR -> LF, pairs split "
            "across reads counted once), positions preserved across append / compaction / expansion. get_first_char likewise. Induction "
            "over fills gives independence of chunking and buffer boundaries.",
    "note": "buffer 8/16 units and BUF_MIN_FILL 4 via hook (code parametric in the macros - argued); chunks <= 3..4 units; memmove/memcpy "
            "specialised to UChar units in the CBMC build (real libc in replays); the byte buffer / ICU incremental decoding are outside; "
            "line counting of HANDLE_EOL is covered by the scanner queries of C01/C12 where listed"}

MANI["C14"] = {
    "text": "Bounded model checking of the real cif_walk and walk_* functions over a symbolic CIF tree and EVERY handler program "
            "(a symbolic answer per callback invocation), against a reference walker that classifies each callback MUST / MUST-NOT / MAY; "
            "also handle release on every path and result codes.",
    "note": "storage API below the walker replaced by a symbolic tree (<= 2 blocks x 1-2 frames x 1-2 loops x 2 packets x 2 items); "
            "permissive on end callbacks after SKIP answers (documentation silent); SKIP_SIBLINGS from end callbacks assumed away; the handler's positive code is 7 on every shape and 1 (= CIF_FINISHED) on two"}

MANI["C19"] = {
    "text": "Bounded model checking of the real value.c / map.c / packet.c: one list operation from every enumerated list state shape "
            "(size x capacity incl. growth boundaries) x operation x index against an array model; table and packet operations against a "
            "map model with the container's key equivalence; cif_value_clone over enumerated value-tree shapes with symbolic contents "
            "(deep equality, no shared storage, independence under release / re-initialisation, no leak, CBMC memory checks).",
    "note": "shapes, operation kinds, indices and shape-changing key spellings are concrete per query instance and enumerated "
            "(a symbolic list index or key makes the heap shape symbolic and no back end finishes); element texts / values / lookup "
            "keys are symbolic; cloned numbers are arbitrary states of the representation constructed directly (a number built by cif_value_parse_numb gives no verdict); "
            "packets start from entries made by set_item and, separately, by cif_packet_create(names); uthash replaced by an API-compatible list model; ICU normalisation = identity + ASCII fold model"}

MANI["C07"] = {
    "text": "Bounded model checking of the C half of value storage: the growable serialisation buffer (cif_buf_write: termination, capacity "
            "bookkeeping, content preservation across growth, over enumerated capacity/position/length boundaries with symbolic bytes), the "
            "serialise -> deserialise round trip for the value kinds whose byte image CBMC can follow, and (where listed in evidence) the "
            "value <-> column macros against the SQL column lists through the SQLite environment stub.",
    "note": "NOT decided: the byte-level round trip of char/number/list/table values (kind and lengths read back from the byte image are "
            "symbolic to CBMC and the recursive deserialiser gives no verdict in 240 s even for one char value) and everything SQLite does "
            "with the columns; the iterator read path (GET_LOOP_VALUES_SQL) and the iterator update statement (UPDATE_VALUE_SQL) column "
            "lists (no verdict in 240 s); number values use a concrete text in the column check; cif_value_clone deep copies are under C19"}

MANI["C17"] = {
    "text": "Bounded model checking with allocation-failure injection: the library TUs are compiled with malloc/calloc/realloc/strdup renamed to "
            "a wrapper that fails exactly one allocation; for each listed API call the failing ordinal is symbolic (all sites at once) or, "
            "where that gives no verdict, enumerated over every site (the no-failure instance asserts the enumeration covers all sites). "
            "Asserted: error code, no leak / double free / invalid free (CBMC memory checks, confirmed natively under ASan+LSan), inputs "
            "intact, target unchanged or valid, retry succeeds.",
    "note": "value / list / table / packet / normalisation functions only (the calls named in evidence); SQLite-backed API functions and "
            "allocations inside SQLite/ICU are outside; uthash = list model whose table-header allocation can fail like uthash's"}
MANI["C05"] = {
    "text": "Bounded model checking of the real C glue of every mutating storage function over a contract-constrained nondeterministic "
            "SQLite environment: for EVERY sequence of engine outcomes (prepare / bind / step / reset / exec / commit failures at any point) "
            "and both entry states (autocommit, enclosing transaction): an error return leaves nothing durable and nothing dirty in the "
            "enclosing transaction, the autocommit state is as found, success closes every frame opened, handles are written only on "
            "success, dropped statements are finalised exactly once, and a following valid call is not refused.",
    "note": "SQLite itself is replaced by stubs/sqlite_env.c (transaction stack semantics, dirty marks, statement life cycle); that SQLite's "
            "rollback restores the content, and errors detected inside SQL (constraints, triggers), are trusted / outside; arguments "
            "are concrete valid names of a small fixed shape; row-change counts the C code inspects are 0 or 1 (primary-key statements)"}

MANI["C06"] = {
    "text": "Bounded model checking of the real iterator functions over the SQLite environment stub with enumerated row scripts and call "
            "sequences (next / update / foreign update / remove, then close or abort) and symbolic engine outcomes: packets delivered once "
            "with every item (unknown where none stored) then CIF_FINISHED, CIF_EMPTY_LOOP, CIF_MISUSE without a current packet, "
            "CIF_WRONG_LOOP with rollback, row addressed = most recently delivered, close commits / abort rolls back, autocommit restored, "
            "statement finalised once.",
    "note": "SQLite replaced by stubs/sqlite_env.c; that the SELECT yields every stored packet once, and atomicity of commit/rollback, are "
            "trusted; loop of two items, <= 2 packets, call sequences <= 5 (quick: 10 curated sequences)"}

MANI["C04"] = {
    "text": "Bounded model checking of the C half of the data-model mechanism, per storage API function, for every engine outcome sequence: "
            "`name` parameters bound with the normalised spelling and `name_orig` with the caller's (by the column map extracted from "
            "the current sql.h), category as given, invalid codes/names refused with the documented code with nothing executed "
            "(representative invalid strings; the predicate itself is C09), scalar category refused, handles from look-ups and from the two enumerations (two-row results) carry the name_orig column, a handle on the scalar loop refuses every change of category, nothing executed on "
            "another CIF's connection.",
    "note": "PARTIAL by construction: the invariants of the data model (one name per container, one scalar loop, cascade on destroy, "
            "isolation of stored content) are enforced by the SQL schema inside libsqlite3, which cannot be encoded; a defect confined "
            "to schema.h or to the meaning of a statement is invisible to this check. SQLite = stubs/sqlite_env.c."}

MANI["C16"] = {
    "text": "Safety projection: CBMC's memory-safety and UB checks (pointer validity, bounds, invalid / double free, memory leak, signed "
            "overflow, undefined shifts) over every safety-mode query of the value / string / buffer / allocation-failure harnesses and over "
            "the storage-API harnesses for all engine outcomes; plus the numeric-locale harness (setlocale model, arbitrary entry locale).",
    "note": "covers the functions those harnesses reach within their bounds; parser productions, the writer and the float kernels "
            "are not reached (listed in evidence as outside); SQLite / ICU / uthash internals are stubs"}

MANI["C11"] = {
    "text": "Bounded model checking of the real cif_parse (encoding / provisional-version cascade) for all 12-byte prefixes x prefer_cif2 "
            "-2..21 x force_default_encoding x default names against the documented decision table, and of the real cif_parse_internal "
            "start-up (BOM, magic comment, version resolution, SET_V1, CIF_WRONG_ENCODING, rewind) for all inputs of <= 11-12 units.",
    "note": "ICU converter API and signature detection are stubs (documented signature table); the grammar after start-up is a recorder; "
            "'same text in any signed encoding yields the same content' is ICU's and not decided; U+FEFF after the first character "
            "is covered by the scanner queries of C12 where listed"}

MANI["C01"] = {
    "text": "Bounded model checking of the lexical layer of the parser against a reference tokenizer written from the CIF 2.0 / 1.1 grammar: "
            "each real scan function (scan_ws, scan_to_eol, scan_to_ws, scan_unquoted, scan_delim_string incl. triple quotes, scan_text) for ALL "
            "buffers of 5 (thorough 6-7) 16-bit units in both dialects, and the real next_token with all of them inlined for ALL buffers of 3 "
            "(thorough 4, plus reserved-word / delimiter prefixes) - token type, value extent, consumption, line count, no error on "
            "well-formed input; and the real decode_text (line-folding and text-prefix decoding) against a reference decoder for ALL "
            "text-field bodies of 4-5 (thorough 3-8) units: the value is the decoded content, quoted; and the real parse_value / parse_list / "
            "parse_table over enumerated token scripts (lists, tables, one level of nesting) with symbolic token contents: the value is exactly "
            "the tree the tokens denote.",
    "note": "one token / one text-field body per query: a whole document is covered only through the composition of token and production "
            "contracts (argued, not mechanised); buffer filling is replaced by its contract (C08); byte decoding (ICU), parse_cif's block loop, "
            "composite values beyond the enumerated scripts (a list or table nested inside a table gave no verdict) and the storage of parsed content are outside (the item / loop / frame productions are "
            "decided under C15 over token scripts)"}
MANI["C12"] = {
    "text": "Lexical defect classes decided on the real scanner units against the reference tokenizer, for all buffers within the bound: "
            "missing end-quote, unterminated text field / triple-quoted string, missing whitespace, reserved words data_/stop_/global_, "
            "over-length line (limit shrunk by hook so both sides of the boundary are covered; terminator not counted) - exact error-code "
            "sequence under an accepting callback, documented recovery (token extent / dropped word), none on well-formed input, first code "
            "returned under a rejecting callback; grammatical classes where production queries are listed.",
    "note": "grammatical defect classes (missing value, duplicate names, frame errors, table keys ...) are decided only if production "
            "queries are listed in evidence; duplicate detection itself is SQL; CIF_LINE_LENGTH = 3 via hook"}
MANI["C03"] = {
    "text": "The scanner units and next_token under CBMC's memory-safety and UB checks for ARBITRARY code units (controls, unpaired and "
            "paired surrogates, non-characters) with an error callback that accepts or rejects symbolically: no out-of-bounds access, result "
            "= 0 or exactly the rejected code, never a negative code, callback line >= 1 and text NULL-or-readable; plus the scan-buffer "
            "fill step from an arbitrary state (C08).",
    "note": "per-unit: termination and totality of a whole parse follow from the units only by the composition argument; byte decoding "
            "/ malformed UTF-8 (ICU), parse options plumbing beyond C11, and the consistency of the target CIF afterwards beyond C05 are outside"}

MANI["C02"] = {
    "text": "Compositional bounded model checking of how a character value is written: (a) the real write_char + cif_analyze_string + "
            "cif_value_get_text with the four presentation writers replaced by stubs that assert the writer contract "
            "(oracles/writer_contract.h) for ALL value texts of the stated lengths, quoted flag, allow_text and start column; (b) each real "
            "writer (write_unquoted, write_quoted, write_triple_quoted, write_text + fold_line, with write_literal / write_uliteral / "
            "write_newline) under that contract, its output captured by an in-memory u_fprintf model and read back in the same query by "
            "the reference scanner + text-field decoder: one token, no error, same text, no line over the limit, column bookkeeping exact; "
            "(c) composite values: the real write_item / write_list / write_table / write_numb / write_literal / write_uliteral on lists, "
            "tables and nestings of concrete shapes from a symbolic start column, with write_char replaced by a stub behaving as (b) shows: "
            "the call succeeds, lines within the limit, column exact, output = the token sequence the value denotes.",
    "note": "values only (container / loop headers, data names, the version comment, UTF-8 encoding and the walk are outside; see evidence.outside); composite shapes: "
            "9 enumerated shapes with leaves of 2-20 characters and keys of 2-5; "
            "lengths <= 3 symbolic units quick / 6 thorough plus forced-folding instances with concrete filler at a line limit shrunk to 15 by "
            "hook; the read-back is against reference scanners proved equivalent to the real ones in C01 and a reference decoder of the "
            "folding / prefix protocol, not the real parser end-to-end"}
MANI["C13"] = {
    "text": "Same compositional queries as C02 in CIF 1.1 output mode (ctx.version = 1): write_char refuses with CIF_DISALLOWED_CHAR exactly "
            "when a code unit is outside the CIF 1.1 set and otherwise either refuses with CIF_DISALLOWED_VALUE or calls exactly one writer "
            "with arguments meeting the contract (never the triple-quoted writer); each writer's output under the contract reads back, with "
            "the CIF 1.1 reference scanner, as the same text within the line limit.",
    "note": "character values only; list / table refusal, names and codes are outside; CR inside values is outside (no CR assumed); bounds as C02"}
MANI["C15"] = {
    "text": "Bounded model checking of the real productions parse_container / parse_item / parse_loop / parse_loop_header / "
            "parse_loop_packets over enumerated token scripts (items, loops with 1-2 columns, a save frame) with a contract stub of the "
            "scanner, a recording store and real packet / value objects: callbacks in document order, everything reported once and stored "
            "when all handlers continue, nothing reported or stored for entities bypassed by SKIP_CURRENT / SKIP_SIBLINGS at any callback "
            "site, END / positive results stop and propagate, skip depth restored, syntax-only mode makes the same callbacks.",
    "note": "handler programs: fully symbolic for item-only scripts; for scripts with loops / frames every single deviation from "
            "'all continue' (site x answer) is enumerated (a symbolic program makes the packet heap symbolic and symex does not finish); "
            "parse_cif's block loop, lists / tables inside values, and the real scanner are outside this seam; composition over a "
            "document is by the production contracts (argued)"}

# ---- additions to the level texts for queries shared between properties / added late (kept separate so that each sentence stays next to the change that motivated it)
MANI["C03"]["text"] += (" Also: the byte-stage reader ustream_read_chars (C08), the start-up of cif_parse_internal (error-callback text readable), and the "
                        "list / table productions on malformed token scripts under the same memory checks.")
MANI["C05"]["text"] += " Also the iterator queries of C06 whose call sequence contains a refused update: nothing of the refused update stays."
MANI["C08"]["text"] += (" Byte stage: the real ustream_read_chars over a small byte buffer with symbolic read sizes and a one-unit-per-byte converter "
                        "model delivers every unit once, in order.")
MANI["C09"]["text"] += " Table / packet key matching and key-spelling bookkeeping are decided against a map model (the C19 map queries, re-listed here)."
MANI["C18"]["text"] += (" Admissibility of the recommended presentation: the dispatch queries of C02 / C13 (real cif_analyze_string + write_char, the "
                        "writers replaced by stubs asserting the conditions under which each presentation reads back).")
MANI["C12"]["text"] += " Grammatical classes for lists and tables (unterminated, missing value, stray value) are production queries over token scripts of h01_value.c."
