"""Extracts, from the CURRENT /repo/src/internal/sql.h, for every SQL statement macro: parameter number -> column and
result index -> column.  Written as a C header for stubs/sqlite_env.c (so that an edit to the SQL text changes the encoding)."""
import os, re

COLS = ["none", "container_id", "id", "parent_id", "name", "name_orig", "category", "loop_num", "row_num", "kind", "quoted", "val_text",
        "val", "val_digits", "su_digits", "scale", "last_row_num", "size", "other"]


def col_id(name):
    name = name.strip().lower()
    name = re.sub(r"\s+as\s+\w+$", "", name)         # "container_id as id" -> container_id
    name = name.split(".")[-1]                        # iv.row_num -> row_num
    return COLS.index(name) if name in COLS else COLS.index("other")


def parse_sql_h(path):
    src = open(path).read()
    src = re.sub(r"/\*.*?\*/", "", src, flags=re.S)
    src = src.replace("\\\n", " ")
    out = {}
    for m in re.finditer(r"#define[ \t]+(\w+_SQL)[ \t]+((?:\"(?:[^\"\\]|\\.)*\"[ \t]*)+)", src):
        text = "".join(re.findall(r"\"((?:[^\"\\]|\\.)*)\"", m.group(2)))
        out[m.group(1)] = text
    return out


def params_of(sql):
    """list index = parameter number (1-based, index 0 unused) -> column id"""
    pmap = {}
    s = sql.strip()
    low = s.lower()
    auto = [0]

    def pnum(tok):
        if tok == "?":
            auto[0] += 1
            return auto[0]
        n = int(tok[1:])
        auto[0] = max(auto[0], n)
        return n
    m = re.match(r"insert\s+(?:or\s+replace\s+)?into\s+\w+\s*\(([^)]*)\)\s*(?:values\s*\(([^)]*)\)|select\s+(.*?)\s+from\b)", low, re.S)
    rest = low
    if m:
        cols = [c.strip() for c in m.group(1).split(",")]
        vals = [v.strip() for v in (m.group(2) if m.group(2) is not None else m.group(3)).split(",")]
        for c, v in zip(cols, vals):
            if re.fullmatch(r"\?\d*", v):
                pmap[pnum(v)] = col_id(c)
        rest = low[m.end():]
    elif low.startswith("update"):
        pass
    # "col = ?" / "col = ?N" anywhere else (set / where clauses), in textual order
    for mm in re.finditer(r"([\w.]+)\s*=\s*(\?\d*)", rest if m else low):
        n = pnum(mm.group(2))
        pmap.setdefault(n, col_id(mm.group(1)))
    n = max(pmap) if pmap else 0
    return [pmap.get(i, 0) for i in range(n + 1)]


def results_of(sql):
    low = sql.strip().lower()
    m = re.match(r"select\s+(.*?)\s+from\b", low, re.S)
    if not m or low.startswith("select ?"):
        return []
    items, depth, cur = [], 0, ""
    for ch in m.group(1):
        if ch == "(":
            depth += 1
        if ch == ")":
            depth -= 1
        if ch == "," and depth == 0:
            items.append(cur); cur = ""
        else:
            cur += ch
    items.append(cur)
    res = []
    for it in items:
        it = it.strip()
        if "(" in it or it.isdigit():
            res.append(COLS.index("other"))
        else:
            res.append(col_id(it))
    return res


def gen(wd, repo):
    sqls = parse_sql_h(os.path.join(repo, "src", "internal", "sql.h"))
    with open(os.path.join(wd, "sql_colmap_gen.h"), "w") as f:
        f.write("/* generated from the current internal/sql.h by lib/sql_colmap.py */\n")
        for i, c in enumerate(COLS):
            f.write("#define COL_%s %d\n" % (c.upper(), i))
        f.write("#define NCOLS %d\n#define CM_MAXP 12\n#define CM_MAXR 12\n" % len(COLS))
        f.write("struct colmap { const char *name; const char *sql; int nparam; int pcol[CM_MAXP]; int nres; int rcol[CM_MAXR]; };\n")
        f.write("static const struct colmap COLMAPS[] = {\n")
        for name, sql in sqls.items():
            p = params_of(sql); r = results_of(sql)
            f.write(' { "%s", "%s", %d, {%s}, %d, {%s} },\n' % (name, sql.replace('"', '\\"'), len(p) - 1 if p else 0,
                    ",".join(str(x) for x in (p + [0] * 12)[:12]), len(r), ",".join(str(x) for x in (r + [0] * 12)[:12])))
        f.write("};\n#define NCOLMAPS %d\n" % len(sqls))
    return sqls


if __name__ == "__main__":
    import sys
    sqls = parse_sql_h("/repo/src/internal/sql.h")
    for n, s in sqls.items():
        print(n, [COLS[c] for c in params_of(s)], "->", [COLS[c] for c in results_of(s)])
