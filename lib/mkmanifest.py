#!/usr/bin/env python3
"""Regenerates /verif/MANIFEST.json from lib/queries.py (REG, MANI)."""
import json, os, subprocess, sys
sys.path.insert(0, os.path.dirname(os.path.abspath(__file__)))
import queries
VERIF = os.path.dirname(os.path.dirname(os.path.abspath(__file__)))
props = [json.loads(l)["id"] for l in open(os.path.join(VERIF, "properties.jsonl"))]
repo_commits = subprocess.check_output(["git", "-C", "/repo", "log", "--format=%h %s", "-20"]).decode().splitlines()
hook_commits = [c.split()[0] for c in repo_commits if "CIF_API_VERIF" in c]
checks, na = [], []
for p in props:
    m = queries.MANI.get(p)
    if p in queries.REG and m:
        checks.append({
            "property_id": p,
            "quick_cmd": "bin/check %s --tier quick" % p,
            "thorough_cmd": "bin/check %s --tier thorough" % p,
            "evidence_file": "evidence/%s.json" % p,
            "replay_cmd_template": "bin/check --replay {path}",
            "engine": "cbmc",
            "level_claimed": {"category": "model_checking", "text": m["text"], "design_ref": m.get("design_ref", "DESIGN.md section 5, " + p)},
            "level_note": m["note"],
            "technique": m.get("technique", "bounded symbolic execution of the real C units with CBMC 6.11 (SAT back end), unwinding assertions, reachability witnesses, native replay of counterexamples"),
        })
    else:
        na.append({"property_id": p, "reason": queries.NA.get(p, "check not built yet (work in progress)")})
man = {
    "version": 1,
    "setup_cmd": "sh bin/setup",
    "hooks": {"guard": "CIF_API_VERIF",
              "enable": "checks compile /repo/src/*.c with goto-cc -DHAVE_CONFIG_H -DCIF_API_VERIF plus per-query -DCIF_API_VERIF_LINE_LENGTH / _BUF_SIZE_INITIAL / _BUF_MIN_FILL / _SERIALIZATION_CAP",
              "baseline_off_cmd": "cd /repo && make -k check",
              "source_commits": hook_commits, "add_only": True},
    "engines": [{"name": "cbmc", "path": "bin/check", "serves_properties": [c["property_id"] for c in checks],
                 "kind_free_text": "CBMC 6.11 bounded model checker over goto-cc builds of /repo's current sources; python driver lib/driver.py"}],
    "checks": checks,
    "not_applicable": na,
    "notes": "All checks: bin/check <ID> --tier quick|thorough. Exit 0 = held within stated bounds; 1 = VIOLATION (counterexample replayed natively); 2 = inconclusive (timeout / vacuous / bound too small / build error); 3 = counterexample did not reproduce natively (encoding mismatch).",
}
json.dump(man, open(os.path.join(VERIF, "MANIFEST.json"), "w"), indent=1)
print("checks:", [c["property_id"] for c in checks], "n/a:", [n["property_id"] for n in na])
