/* Reference decoder of the CIF 2.0 text-field prefix / line-folding protocol, written from the CIF 2.0 specification:
 * the first line of the field (after the opening ';') may be  <prefix>\\  (prefix protocol),  \\  (folding), or
 * <prefix>\\\\ (both), optionally followed by blanks; with prefixing, every following line starts with the prefix,
 * which is removed; with folding, a line whose last non-blank character is a backslash is joined to the next one. */
#ifndef REF_TEXTFIELD_H
#define REF_TEXTFIELD_H
/* reference decoder for a text field body (between the opening ';' and the closing newline-semicolon) */
static int ref_decode_text(const UChar *b, int n, UChar *out, int outmax) {
    int i = 0, o = 0, plen = 0, folded = 0, eol1 = 0, nbs = 0, lastbs = -1, k, nonws = 0;
    while (eol1 < n && b[eol1] != 0x0a) eol1++;
    if (n > 0 && b[0] != ';') {
        for (k = 0; k < eol1; k++) { if (b[k] == '\\') { nbs++; lastbs = k; nonws = 0; } else if (b[k] != ' ' && b[k] != '\t') nonws = 1; }
        if (nbs >= 1 && !nonws) {
            int pl = lastbs + 1 - nbs;                                    /* characters before the first of the trailing backslashes */
            if (nbs == 1) { plen = pl; folded = (pl == 0); if (pl > 0) folded = 0; if (pl == 0) folded = 1; }
            else if (nbs == 2 && pl > 0 && b[pl] == '\\') { plen = pl; folded = 1; }
            else { plen = 0; folded = 0; nbs = 0; }
            if (nbs) i = (eol1 < n) ? eol1 + 1 : n; else plen = 0;
        } else nbs = 0;
    }
    if (!nbs) { for (k = 0; k < n && o < outmax; k++) out[o++] = b[k]; return o; }
    while (i < n) {
        int ls = i, le, j, fold_here = 0;
        if (plen > 0) { int m = 1; for (k = 0; k < plen; k++) if (i + k >= n || b[i + k] != b[k]) m = 0; if (m) ls = i + plen; }
        le = ls; while (le < n && b[le] != 0x0a) le++;
        j = le; while (j > ls && (b[j - 1] == ' ' || b[j - 1] == '\t')) j--;
        if (folded && j > ls && b[j - 1] == '\\' && le < n) fold_here = 1;
        for (k = ls; k < (fold_here ? j - 1 : le) && o < outmax; k++) out[o++] = b[k];
        if (!fold_here && le < n && o < outmax) out[o++] = 0x0a;
        i = (le < n) ? le + 1 : n;
    }
    return o;
}
#endif
