/* The contract between write_char (which chooses a presentation from cif_analyze_string's report) and the four
 * presentation writers of ciffile.c, stated over the value text itself.  Each predicate is the condition under which the
 * corresponding writer's output reads back as the text; the writer queries ASSUME it and prove the round trip, the dispatch
 * query runs the real write_char / cif_analyze_string with the writers replaced by stubs that ASSERT it.  Written from the
 * CIF 2.0 / 1.1 lexical rules, not from the implementation: it says what a correct choice needs, and leaves free what does
 * not matter (e.g. folding or prefixing a text field that does not need it). */
#ifndef WRITER_CONTRACT_H
#define WRITER_CONTRACT_H
struct wstats { int nlines, first, last, maxl, has_nlsemi, reserved_start, run3_sq, run3_dq, n_sq, n_dq, max_semi_run; };
static struct wstats w_stats(const UChar *s, int n) {
    struct wstats w; int i, l = 0, rs = 0, rd = 0, k, semis = 0;
    w.nlines = 1; w.first = -1; w.maxl = 0; w.has_nlsemi = 0; w.reserved_start = 0; w.run3_sq = 0; w.run3_dq = 0; w.n_sq = 0; w.n_dq = 0; w.max_semi_run = 0;
    for (i = 0; i < n; i++) {
        if (s[i] == 0x0a) { if (w.first < 0) w.first = l; if (l > w.maxl) w.maxl = l; l = 0; w.nlines++; if (i + 1 < n && s[i + 1] == ';') w.has_nlsemi = 1; } else l++;
        if (s[i] == 0x27) { w.n_sq++; if (++rs >= 3) w.run3_sq = 1; } else rs = 0;
        if (s[i] == '"') { w.n_dq++; if (++rd >= 3) w.run3_dq = 1; } else rd = 0;
        if (s[i] == ';') { if (++semis > w.max_semi_run) w.max_semi_run = semis; } else semis = 0;
    }
    if (w.first < 0) w.first = l;
    if (l > w.maxl) w.maxl = l;
    w.last = l;
    /* the first line looks like a prefix / fold marker: its last non-blank character is a backslash (a text starting with ';' is never decoded) */
    if (n > 0 && s[0] != ';') for (k = w.first - 1; k >= 0; k--) { if (s[k] == ' ' || s[k] == '\t') continue; if (s[k] == '\\') w.reserved_start = 1; break; }
    return w;
}
static int w_reserved_word(const UChar *s, int n) {
    return ref_kw(s, n, "data_") || ref_kw(s, n, "save_") || (n == 5 && ref_kw(s, n, "loop_")) || (n == 5 && ref_kw(s, n, "stop_")) || (n == 7 && ref_kw(s, n, "global_"));
}
static int pre_unquoted(const UChar *s, int n, int len_arg, int L) {
    int i;
    if (n < 1 || n > L || (len_arg != n && len_arg >= 0)) return 0;
    for (i = 0; i < n; i++) if (ref_ws(s[i]) || s[i] == '[' || s[i] == ']' || s[i] == '{' || s[i] == '}') return 0;
    if (s[0] == 0x27 || s[0] == '"' || s[0] == '#' || s[0] == '$' || s[0] == '_' || s[0] == ';') return 0;
    if (n == 1 && (s[0] == '?' || s[0] == '.')) return 0;
    return !w_reserved_word(s, n);
}
static int pre_quoted(const UChar *s, int n, int len_arg, int delim, int L) {
    int i;
    if (len_arg != n || n > L - 2 || (delim != 0x27 && delim != '"')) return 0;
    for (i = 0; i < n; i++) if (s[i] == 0x0a || s[i] == delim) return 0;
    return 1;
}
static int pre_triple(const UChar *s, int n, int line1_arg, int last_arg, int delim, int L, int version) {
    struct wstats w = w_stats(s, n);
    if (version < 2 || n < 1 || (delim != 0x27 && delim != '"')) return 0;
    if (line1_arg != w.first + 3 || last_arg != w.last) return 0;
    if ((delim == 0x27) ? w.run3_sq : w.run3_dq) return 0;
    if (s[n - 1] == delim) return 0;
    if (w.nlines == 1) return n <= L - 6;
    return w.first + 3 <= L && w.last + 3 <= L && w.maxl <= L;
}
/* W = the fold-point search window of write_text / fold_line (FOLDING_WINDOW in the current source): when folding without the
 * prefix protocol a segment must not be cut just before a semicolon, so runs of W or more semicolons need prefixing */
#ifndef WRITER_PREFIX_LENGTH
#define WRITER_PREFIX_LENGTH 2          /* "> " : the prefix write_text uses (PREFIX in ciffile.c; checked by the harnesses that see the source constant) */
#endif
static int pre_text(const UChar *s, int n, int len_arg, int fold, int prefix, int L, int version, int W) {
    struct wstats w = w_stats(s, n);
    if (n < 1 || len_arg != n) return 0;
    if (w.has_nlsemi && !prefix) return 0;                                 /* an embedded newline-semicolon needs the prefix protocol */
    if (fold && s[0] == ';' && !prefix) return 0;                          /* a folded field starting with ';' would put that ';' at the start of a line */
    if ((w.maxl > L || w.first >= L || w.reserved_start) && !fold) return 0; /* too-long lines and marker look-alikes need folding */
    if (prefix && !fold && w.maxl + WRITER_PREFIX_LENGTH > L) return 0;      /* a prefixed line is longer than the line it carries */
    if (fold && !prefix && w.max_semi_run >= W) return 0;                    /* no admissible fold point near a long run of semicolons */
    return 1;
}
#endif
