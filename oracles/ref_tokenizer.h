/* Reference tokenizer for ONE call of next_token, written from the CIF 2.0 / CIF 1.1 lexical grammar and the documented
 * recovery actions (parser.c header comment / cif.h), independent of the scanner implementation.
 *
 * Input: in[0..n) code units already EOL-normalised (no CR), the dialect (2 or 1), whether the previous token allows an
 * adjacent token without whitespace, the line-length limit L.
 * Output (struct reftok): token type, value extent [vstart, vstart+vlen), units consumed, line number afterwards, the
 * sequence of error codes an all-accepting error callback sees (at most REF_MAXERR), or `unspecified` when the input uses
 * characters whose treatment this reference does not pin down (controls, DEL, C1, surrogates, non-characters, U+FEFF,
 * non-ASCII in CIF 1.1) or constructs the documentation leaves open (see the individual comments).
 */
#ifndef REF_TOKENIZER_H
#define REF_TOKENIZER_H
#define REF_MAXERR 4
enum reftype { R_BLOCK_HEAD, R_FRAME_HEAD, R_FRAME_TERM, R_LOOPKW, R_NAME, R_OTABLE, R_CTABLE, R_OLIST, R_CLIST, R_KEY, R_TKEY, R_VALUE, R_QVALUE, R_TVALUE, R_END };
struct reftok { int unspecified; int type; int vstart; int vlen; int consumed; int tstart; int line; int nerr; int err[REF_MAXERR]; };
static void ref_err(struct reftok *r, int code) { if (r->nerr < REF_MAXERR) r->err[r->nerr] = code; r->nerr++; }
static int ref_clean(UChar c, int v) {
    if (c == 0x09 || c == 0x0a) return 1;
    if (c >= 0x20 && c <= 0x7e) return 1;
    if (v >= 2 && c >= 0xa0 && c < 0xd800) return 1;
    return 0;
}
static int ref_ws(UChar c) { return c == 0x20 || c == 0x09 || c == 0x0a; }
static int ref_lc(UChar c) { return (c >= 'A' && c <= 'Z') ? c + 32 : c; }
static int ref_kw(const UChar *t, int n, const char *w) { int i; for (i = 0; w[i]; i++) { if (i >= n || ref_lc(t[i]) != (UChar) w[i]) return 0; } return i; }

/* ---- unit-level references (one per scan function); positions are indices into in[], col = characters so far on the line ---- */
struct refscan { int end; int vstart; int vlen; int line; int col; int nerr; int err[REF_MAXERR]; };
static void rs_err(struct refscan *r, int code) { if (r->nerr < REF_MAXERR) r->err[r->nerr] = code; r->nerr++; }
static struct refscan rs_init(int line, int col) { struct refscan r; int i; r.end = 0; r.vstart = 0; r.vlen = 0; r.line = line; r.col = col; r.nerr = 0; for (i = 0; i < REF_MAXERR; i++) r.err[i] = 0; return r; }
/* whitespace run starting at pos (any mixture of blanks and newlines) */
static struct refscan ref_scan_ws(const UChar *in, int n, int pos, int line, int col, int L) {
    struct refscan r = rs_init(line, col); r.vstart = pos;
    while (pos < n && ref_ws(in[pos])) { if (in[pos] == 0x0a) { if (r.col > L) rs_err(&r, CIF_OVERLENGTH_LINE); r.line++; r.col = 0; } else r.col++; pos++; }
    r.end = pos; r.vlen = pos - r.vstart; return r;
}
/* rest of the line, terminator excluded (comments) */
static struct refscan ref_scan_to_eol(const UChar *in, int n, int pos, int line, int col) {
    struct refscan r = rs_init(line, col); r.vstart = pos; while (pos < n && in[pos] != 0x0a) { pos++; r.col++; } r.end = pos; r.vlen = pos - r.vstart; return r; }
/* up to the next whitespace (data names) */
static struct refscan ref_scan_to_ws(const UChar *in, int n, int pos, int line, int col) {
    struct refscan r = rs_init(line, col); r.vstart = pos; while (pos < n && !ref_ws(in[pos])) { pos++; r.col++; } r.end = pos; r.vlen = pos - r.vstart; return r; }
/* whitespace-delimited value starting at pos: ends at whitespace; in CIF 2.0 also before a bracket / brace unless the token
 * is a data_ / save_ header at least 5 characters long (an opening one additionally raises CIF_MISSING_SPACE) */
static struct refscan ref_scan_unquoted(const UChar *in, int n, int v, int pos, int line, int col) {
    struct refscan r = rs_init(line, col); int k = pos, hdr = (ref_kw(in + pos, n - pos, "data_") || ref_kw(in + pos, n - pos, "save_"));
    r.vstart = pos;
    while (k < n && !ref_ws(in[k])) {
        if (v >= 2 && (in[k] == '[' || in[k] == '{') && !(hdr && k - pos >= 5)) { rs_err(&r, CIF_MISSING_SPACE); break; }
        if (v >= 2 && (in[k] == ']' || in[k] == '}') && !(hdr && k - pos >= 5)) break;
        k++;
    }
    r.end = k; r.vlen = k - pos; r.col += r.vlen; return r;
}
/* quoted string whose opening delimiter is at pos: single-line form, or (CIF 2.0) triple-delimited form */
static struct refscan ref_scan_delim(const UChar *in, int n, int v, int pos, int line, int col, int L) {
    struct refscan r = rs_init(line, col); UChar c = in[pos]; int q = pos + 1, end = -1, k;
    if (v >= 2 && pos + 2 < n && in[pos + 1] == c && in[pos + 2] == c) {
        int run = 0; q = pos + 3; r.col += 3;
        for (k = q; k < n; k++) {
            if (in[k] == c) { r.col++; if (++run == 3) { end = k - 2; break; } }
            else { run = 0; if (in[k] == 0x0a) { if (r.col > L) rs_err(&r, CIF_OVERLENGTH_LINE); r.line++; r.col = 0; } else r.col++; }
        }
        r.vstart = q;
        if (end < 0) { rs_err(&r, CIF_UNCLOSED_TEXT); r.vlen = n - q; r.end = n; } else { r.vlen = end - q; r.end = end + 3; }
        return r;
    }
    r.col++;
    for (k = q; k < n; k++) {
        if (in[k] == 0x0a) break;
        r.col++;
        if (in[k] == c) { if (v >= 2) { end = k; break; } if (k + 1 >= n || ref_ws(in[k + 1])) { end = k; break; } }
    }
    r.vstart = q;
    if (end < 0) { rs_err(&r, CIF_MISSING_ENDQUOTE); r.vlen = k - q; r.end = k; } else { r.vlen = end - q; r.end = end + 1; }
    return r;
}
/* text field whose opening semicolon (in column 1) is at pos */
static struct refscan ref_scan_text(const UChar *in, int n, int pos, int line, int L) {
    struct refscan r = rs_init(line, 1); int k, end = -1;
    for (k = pos + 1; k < n; k++) {
        if (in[k] == ';' && in[k - 1] == 0x0a) { end = k; break; }
        if (in[k] == 0x0a) { if (r.col > L) rs_err(&r, CIF_OVERLENGTH_LINE); r.line++; r.col = 0; } else r.col++;
    }
    r.vstart = pos + 1;
    if (end < 0) { rs_err(&r, CIF_UNCLOSED_TEXT); r.vlen = n - (pos + 1); r.end = n; } else { r.vlen = (end - 1) - (pos + 1); r.end = end + 1; r.col = 1; }
    return r;
}

static struct reftok ref_next_token(const UChar *in, int n, int v, int after_ws, int L) {
    struct reftok r; int pos = 0, col = 0, i;
    r.unspecified = 0; r.type = R_END; r.vstart = 0; r.vlen = 0; r.consumed = 0; r.tstart = 0; r.line = 1; r.nerr = 0;
    for (i = 0; i < REF_MAXERR; i++) r.err[i] = 0;
    for (i = 0; i < n; i++) if (!ref_clean(in[i], v)) { r.unspecified = 1; return r; }
    for (;;) {
        UChar c; int start = pos;
        if (pos >= n) { r.type = R_END; r.tstart = pos; r.vstart = pos; r.vlen = 0; r.consumed = pos; return r; }
        c = in[pos];
        if (ref_ws(c)) {                                          /* whitespace run, any mixture of blanks and newlines */
            while (pos < n && ref_ws(in[pos])) {
                if (in[pos] == 0x0a) { if (col > L) ref_err(&r, CIF_OVERLENGTH_LINE); r.line++; col = 0; } else col++;
                pos++;
            }
            after_ws = 1; continue;
        }
        if (c == '#') {                                           /* comment: to the end of the line, terminator excluded */
            if (!after_ws) ref_err(&r, CIF_MISSING_SPACE);
            while (pos < n && in[pos] != 0x0a) { pos++; col++; }
            continue;
        }
        /* a token starts here */
        r.tstart = start;
        if (!after_ws && !(v >= 2 && (c == ']' || c == '}'))) ref_err(&r, CIF_MISSING_SPACE);
        if (c == '_') {
            while (pos < n && !ref_ws(in[pos])) { pos++; col++; }
            r.type = R_NAME; r.vstart = start; r.vlen = pos - start; r.consumed = pos; return r;
        }
        if (v >= 2 && (c == '[' || c == ']' || c == '{' || c == '}')) {
            r.type = (c == '[') ? R_OLIST : (c == ']') ? R_CLIST : (c == '{') ? R_OTABLE : R_CTABLE;
            r.vstart = start; r.vlen = 1; r.consumed = pos + 1; return r;
        }
        if (c == '\'' || c == '"') {
            int q = pos + 1, triple = (v >= 2 && pos + 2 < n && in[pos + 1] == c && in[pos + 2] == c), end = -1, dsz = 1, iskey = 0;
            if (triple) {
                int k, run = 0; q = pos + 3; col += 3;
                for (k = q; k < n; k++) {
                    if (in[k] == c) { col++; if (++run == 3) { end = k - 2; break; } }
                    else { run = 0; if (in[k] == 0x0a) { if (col > L) ref_err(&r, CIF_OVERLENGTH_LINE); r.line++; col = 0; } else col++; }
                }
                if (end < 0) { ref_err(&r, CIF_UNCLOSED_TEXT); r.vstart = q; r.vlen = n - q; pos = n; }
                else { r.vstart = q; r.vlen = end - q; pos = end + 3; }
            } else {
                int k; col++;
                for (k = q; k < n; k++) {
                    if (in[k] == 0x0a) break;
                    col++;
                    if (in[k] == c) { if (v >= 2) { end = k; break; } if (k + 1 >= n || ref_ws(in[k + 1])) { end = k; break; } }   /* CIF 1.1: a quote closes only before whitespace */
                }
                if (end < 0) { ref_err(&r, CIF_MISSING_ENDQUOTE); r.vstart = q; r.vlen = k - q; pos = k; dsz = 0; }   /* recovered: the value ends at the end of the line */
                else { r.vstart = q; r.vlen = end - q; pos = end + 1; }
            }
            (void) dsz;
            if (pos < n && in[pos] == ':') { iskey = 1; pos++; }      /* a quoted string directly followed by a colon is a table key */
            r.type = iskey ? R_KEY : R_QVALUE; r.consumed = pos; return r;
        }
        if (c == ';' && col == 0) {                                 /* text field: from a semicolon in column 1 to newline-semicolon */
            int k, end = -1; col = 1;
            for (k = pos + 1; k < n; k++) {
                if (in[k] == ';' && in[k - 1] == 0x0a) { end = k; break; }
                if (in[k] == 0x0a) { if (col > L) ref_err(&r, CIF_OVERLENGTH_LINE); r.line++; col = 0; } else col++;
            }
            if (end < 0) { ref_err(&r, CIF_UNCLOSED_TEXT); r.vstart = pos + 1; r.vlen = n - (pos + 1); pos = n; }
            else { r.vstart = pos + 1; r.vlen = (end - 1) - (pos + 1); pos = end + 1; }
            r.type = R_TVALUE;
            if (v >= 2 && pos < n && in[pos] == ':') { r.type = R_TKEY; pos++; }
            r.consumed = pos; return r;
        }
        {   /* whitespace-delimited value, possibly a reserved word or a block / frame header */
            int k = pos, hdr, len;
            if (c == ';' && v >= 2) { int j; for (j = pos; j < n && !ref_ws(in[j]); j++) if (in[j] == '[' || in[j] == ']' || in[j] == '{' || in[j] == '}') { r.unspecified = 1; return r; } }
            hdr = (ref_kw(in + pos, n - pos, "data_") || ref_kw(in + pos, n - pos, "save_"));
            while (k < n && !ref_ws(in[k])) {
                if (v >= 2 && (in[k] == '[' || in[k] == '{') && !(hdr && k - pos >= 5)) { ref_err(&r, CIF_MISSING_SPACE); break; }
                if (v >= 2 && (in[k] == ']' || in[k] == '}') && !(hdr && k - pos >= 5)) break;
                k++;
            }
            len = k - pos; col += len;
            r.vstart = pos; r.vlen = len; r.consumed = k; r.type = R_VALUE;
            if (len > 4 && in[pos + 4] == '_') {
                if (ref_kw(in + pos, len, "data_")) {
                    if (len == 5) { ref_err(&r, CIF_RESERVED_WORD); pos = k; continue; }      /* dropped */
                    r.type = R_BLOCK_HEAD; r.vstart = pos + 5; r.vlen = len - 5; return r;
                }
                if (ref_kw(in + pos, len, "save_")) { r.type = (len == 5) ? R_FRAME_TERM : R_FRAME_HEAD; r.vstart = pos + 5; r.vlen = len - 5; return r; }
                if (len == 5 && ref_kw(in + pos, len, "loop_")) { r.type = R_LOOPKW; r.vstart = pos + 5; r.vlen = 0; return r; }
                if (len == 5 && ref_kw(in + pos, len, "stop_")) { ref_err(&r, CIF_RESERVED_WORD); pos = k; continue; }
            } else if (len == 7 && ref_kw(in + pos, len, "global_")) { ref_err(&r, CIF_RESERVED_WORD); pos = k; continue; }
            return r;
        }
    }
}
#endif
